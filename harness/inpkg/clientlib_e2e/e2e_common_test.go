// Shared harness of C01-L1, C05 and C18(b): model clients (the real client data
// path minus WebRTC: RedialPacketConn + encapsulationPacketConn + KCP/smux
// configured as newSession does) talk to the real server library through an
// in-process TCP forwarder that injects carrier faults. Injected into
// client/lib with go test -overlay; go 1.13 language level.
package snowflake_client

import (
	"context"
	"encoding/binary"
	"errors"
	"fmt"
	"io"
	"net"
	"net/url"
	"sync"
	"sync/atomic"
	"time"

	"git.torproject.org/pluggable-transports/snowflake.git/v2/common/turbotunnel"
	"git.torproject.org/pluggable-transports/snowflake.git/v2/common/websocketconn"
	snowflake_server "git.torproject.org/pluggable-transports/snowflake.git/v2/server/lib"
	"github.com/gorilla/websocket"
	"github.com/xtaci/kcp-go/v5"
	"github.com/xtaci/smux"
	"verif/vlib"
)

// ---- fault plans --------------------------------------------------------------

type carrierPlan struct {
	Kind     string `json:"kind"`                           // healthy | cut | stall | delay | refuse | double | short-lived
	CutUp    int64  `json:"cut_after_up_bytes,omitempty"`   // raw TCP bytes client->server, <0 = never
	CutDown  int64  `json:"cut_after_down_bytes,omitempty"` // raw TCP bytes server->client, <0 = never
	StallMs  int    `json:"stall_ms,omitempty"`
	DelayMs  int    `json:"delay_ms,omitempty"`
	Refusals int    `json:"refusals,omitempty"`
	GapMs    int    `json:"gap_before_ms,omitempty"`
	ClientIP string `json:"client_ip,omitempty"`
}

type sessionPlan struct {
	Tag      uint64        `json:"tag"`
	LenUp    uint64        `json:"len_up"`
	LenDown  uint64        `json:"len_down"`
	Carriers []carrierPlan `json:"carriers"` // after the list: healthy carriers
	IPs      []string      `json:"client_ips"`
	// BridgeCloses: the bridge side closes its connection as soon as it has
	// written everything (what server.go does when the ORPort is done), while
	// the client is still reading and a carrier may be dying with the tail
	BridgeCloses bool `json:"bridge_closes_after_writing,omitempty"`

	// observations (guarded by mu)
	mu                       sync.Mutex
	accepts                  int
	remoteAddrs              []string
	carriersUsed             int
	upVerified, downVerified uint64
	serverDone, clientDone   bool
	clientErr, serverErr     string
	conv                     uint32
	convKnown                bool
	foreignPkts              int
	ownPkts                  int
	lastFaultAt              time.Time
	dialEnded                bool
}

// ---- forwarder -----------------------------------------------------------------

// forwarder is a per-session TCP forwarder: every accepted connection is one
// carrier and executes the next carrierPlan of its session.
type forwarder struct {
	ln                 net.Listener
	target             string
	plan               *sessionPlan
	next               int32
	res                *vlib.Result
	closed             int32
	conns              sync.Map
	bytesUp, bytesDown int64
	lastMove           int64 // unix nano of the last forwarded byte
	liveSince          int64 // unix nano since when a carrier forwarding in both directions is connected (0 = none)
	liveConns          int32
	usable             int32 // carriers currently forwarding in both directions (not black-holed)
}

func newForwarder(target string, plan *sessionPlan, res *vlib.Result) (*forwarder, error) {
	ln, err := net.Listen("tcp", "127.0.0.1:0")
	if err != nil {
		return nil, err
	}
	f := &forwarder{ln: ln, target: target, plan: plan, res: res}
	go f.loop()
	return f, nil
}

func (f *forwarder) addr() string { return f.ln.Addr().String() }

func (f *forwarder) close() {
	atomic.StoreInt32(&f.closed, 1)
	f.ln.Close()
	f.conns.Range(func(k, _ interface{}) bool { k.(net.Conn).Close(); return true })
}

func (f *forwarder) planFor(i int) carrierPlan {
	if i < len(f.plan.Carriers) {
		return f.plan.Carriers[i]
	}
	return carrierPlan{Kind: "healthy", CutUp: -1, CutDown: -1}
}

func (f *forwarder) loop() {
	for {
		c, err := f.ln.Accept()
		if err != nil {
			return
		}
		i := int(atomic.AddInt32(&f.next, 1)) - 1
		go f.serve(c, f.planFor(i), i)
	}
}

func (f *forwarder) serve(c net.Conn, p carrierPlan, idx int) {
	f.conns.Store(c, true)
	defer f.conns.Delete(c)
	defer c.Close()
	if p.Kind == "refuse" {
		f.res.Obs("faults_refuse", 1)
		f.noteFault()
		return
	}
	s, err := net.DialTimeout("tcp", f.target, 10*time.Second)
	if err != nil {
		return
	}
	f.conns.Store(s, true)
	defer f.conns.Delete(s)
	defer s.Close()
	var once sync.Once
	cut := func(why string) {
		once.Do(func() {
			if why != "" {
				f.res.Obs("faults_"+why, 1)
				f.noteFault()
			}
			c.Close()
			s.Close()
		})
	}
	var stalled int32
	var markStall func()
	pump := func(dst, src net.Conn, limit int64, counter *int64, dir string) {
		buf := make([]byte, 16384)
		var n int64
		for {
			k, err := src.Read(buf)
			if k > 0 {
				if atomic.LoadInt32(&stalled) == 1 {
					continue // black hole
				}
				if p.DelayMs > 0 {
					time.Sleep(time.Duration(p.DelayMs) * time.Millisecond)
				}
				w := int64(k)
				cutNow := false
				if limit >= 0 && n+w >= limit {
					w = limit - n
					cutNow = true
				}
				if w > 0 {
					if _, werr := dst.Write(buf[:w]); werr != nil {
						cut("")
						return
					}
					atomic.AddInt64(counter, w)
					atomic.StoreInt64(&f.lastMove, time.Now().UnixNano())
				}
				n += w
				if cutNow {
					if p.Kind == "stall" {
						atomic.StoreInt32(&stalled, 1)
						atomic.StoreInt64(&f.liveSince, 0)
						if markStall != nil {
							markStall()
						}
						f.res.Obs("faults_stall", 1)
						f.noteFault()
						time.AfterFunc(time.Duration(p.StallMs)*time.Millisecond, func() { cut("") })
						continue
					}
					cut("cut_" + dir)
					return
				}
			}
			if err != nil {
				cut("")
				return
			}
		}
	}
	up, down := p.CutUp, p.CutDown
	if p.Kind == "healthy" || p.Kind == "delay" || p.Kind == "handoff" || p.Kind == "handoff-overlap" {
		up, down = -1, -1
	}
	if atomic.AddInt32(&f.liveConns, 1) == 1 {
		atomic.StoreInt64(&f.liveSince, time.Now().UnixNano())
	}
	atomic.AddInt32(&f.usable, 1)
	var unusableOnce sync.Once
	markUnusable := func() { unusableOnce.Do(func() { atomic.AddInt32(&f.usable, -1) }) }
	defer markUnusable()
	markStall = markUnusable
	defer func() {
		// any carrier ending restarts the clock: a stall is only judged over a
		// period in which one and the same carrier set was continuously usable
		if atomic.AddInt32(&f.liveConns, -1) > 0 {
			// another carrier of the session is still forwarding: the period starts anew with it
			atomic.StoreInt64(&f.liveSince, time.Now().UnixNano())
		} else {
			atomic.StoreInt64(&f.liveSince, 0)
		}
	}()
	go pump(s, c, up, &f.bytesUp, "up")
	pump(c, s, down, &f.bytesDown, "down")
}

func (f *forwarder) noteFault() {
	f.plan.mu.Lock()
	f.plan.lastFaultAt = time.Now()
	f.plan.mu.Unlock()
}

// ---- server host ---------------------------------------------------------------

type e2eServer struct {
	ln             *snowflake_server.SnowflakeListener
	addr           string
	res            *vlib.Result
	mu             sync.Mutex
	sessions       map[uint64]*sessionPlan
	unknownAccepts int
	wg             sync.WaitGroup
}

func startE2EServer(res *vlib.Result) (*e2eServer, error) {
	l, err := net.Listen("tcp", "127.0.0.1:0")
	if err != nil {
		return nil, err
	}
	addr := l.Addr().(*net.TCPAddr)
	l.Close()
	tr := snowflake_server.NewSnowflakeServer(nil)
	ln, err := tr.Listen(addr)
	if err != nil {
		return nil, err
	}
	s := &e2eServer{ln: ln, addr: addr.String(), res: res, sessions: map[uint64]*sessionPlan{}}
	// wait until the HTTP side answers
	for i := 0; i < 200; i++ {
		c, err := net.DialTimeout("tcp", s.addr, time.Second)
		if err == nil {
			c.Close()
			break
		}
		time.Sleep(10 * time.Millisecond)
	}
	go s.acceptLoop()
	return s, nil
}

func (s *e2eServer) register(p *sessionPlan) {
	s.mu.Lock()
	s.sessions[p.Tag] = p
	s.mu.Unlock()
}

func (s *e2eServer) acceptLoop() {
	for {
		conn, err := s.ln.Accept()
		if err != nil {
			return
		}
		s.wg.Add(1)
		go func() { defer s.wg.Done(); s.handle(conn) }()
	}
}

func allStreams(s *e2eServer) [][2]uint64 {
	s.mu.Lock()
	defer s.mu.Unlock()
	var out [][2]uint64
	for t := range s.sessions {
		out = append(out, [2]uint64{t, 0}, [2]uint64{t, 1})
	}
	return out
}

// handle is the bridge side of one accepted connection.
func (s *e2eServer) handle(conn net.Conn) {
	defer conn.Close()
	var hdr [vlib.StreamHeaderLen]byte
	if _, err := io.ReadFull(conn, hdr[:]); err != nil {
		s.mu.Lock()
		s.unknownAccepts++
		s.mu.Unlock()
		return
	}
	tag, dir, length, ok := vlib.ParseStreamHeader(hdr[:])
	s.mu.Lock()
	plan := s.sessions[tag]
	s.mu.Unlock()
	if !ok || plan == nil || dir != 0 {
		s.res.Violate("stream:accepted-connection-starts-with-foreign-bytes", fmt.Sprintf("an accepted connection began with %x, not a stream header of a known session", hdr[:]), map[string]interface{}{"case": "server-accept", "first_bytes": fmt.Sprintf("%x", hdr[:])})
		return
	}
	ra := ""
	if a := conn.RemoteAddr(); a != nil {
		ra = a.String()
	}
	plan.mu.Lock()
	plan.accepts++
	plan.remoteAddrs = append(plan.remoteAddrs, ra)
	plan.mu.Unlock()
	if length != plan.LenUp {
		s.res.Violate("stream:header-corrupted", fmt.Sprintf("session %x: upstream header announces %d bytes, sent %d", tag, length, plan.LenUp), map[string]interface{}{"case": fmt.Sprintf("sess/%x", tag)})
	}
	// downstream writer
	wdone := make(chan struct{})
	go func() {
		defer close(wdone)
		r := vlib.NewRand(tag).Split("down-chunks")
		if _, err := conn.Write(vlib.StreamHeader(tag, 1, plan.LenDown)); err != nil {
			return
		}
		var off uint64
		buf := make([]byte, 32768)
		for off < plan.LenDown {
			n := uint64(r.Range(1, len(buf)))
			if r.Chance(1, 8) {
				n = uint64(r.Range(1, 64))
			}
			if off+n > plan.LenDown {
				n = plan.LenDown - off
			}
			vlib.FillKey(tag, 1, off, buf[:n])
			if _, err := conn.Write(buf[:n]); err != nil {
				return
			}
			off += n
		}
		if plan.BridgeCloses {
			conn.Close()
			s.res.Obs("bridge_side_closed_right_after_writing", 1)
		}
	}()
	if plan.LenUp == 0 {
		go func() {
			<-wdone
			plan.mu.Lock()
			plan.serverDone = true
			plan.mu.Unlock()
		}()
	}
	// upstream verifier
	chk := &vlib.StreamChecker{Tag: tag, Dir: 0}
	buf := make([]byte, 32768)
	var rerr error
	for {
		n, err := conn.Read(buf)
		if n > 0 {
			if chk.Off+uint64(n) > plan.LenUp {
				s.res.Violate("stream:extra-bytes:upstream", fmt.Sprintf("session %x: bridge side read more than the %d bytes written", tag, plan.LenUp), map[string]interface{}{"case": fmt.Sprintf("sess/%x", tag), "plan": plan})
				break
			}
			if !chk.Check(buf[:n]) {
				cls := vlib.Classify(buf[:n], allStreams(s), 1<<22)
				s.res.Violate("stream:wrong-byte:upstream", chk.Fail+" — "+cls, map[string]interface{}{"case": fmt.Sprintf("sess/%x", tag), "plan": plan, "classification": cls})
				break
			}
			plan.mu.Lock()
			plan.upVerified = chk.Off
			plan.mu.Unlock()
			if chk.Off == plan.LenUp {
				// everything written upstream has arrived; the client may now go away
				// without the stream's end ever being transmitted, so completion is
				// not tied to seeing EOF (further bytes would still be flagged above)
				go func() {
					<-wdone
					plan.mu.Lock()
					plan.serverDone = true
					plan.mu.Unlock()
				}()
			}
		}
		if err != nil {
			rerr = err
			break
		}
	}
	<-wdone
	// the address of an accepted connection is settled when the session is
	// established; whatever carriers came later, it reads the same at the end
	ra2 := ""
	if a := conn.RemoteAddr(); a != nil {
		ra2 = a.String()
	}
	s.res.Obs("remote_addr_read_again_at_end_of_session", 1)
	if ra2 != ra {
		s.res.Violate("c18:remote-addr-changed-after-accept", fmt.Sprintf("session %x: RemoteAddr() was %q when the connection was accepted and %q at the end of the session", tag, ra, ra2), map[string]interface{}{"case": fmt.Sprintf("sess/%x", tag), "plan": plan})
	}
	plan.mu.Lock()
	if rerr != nil && rerr != io.EOF && !plan.BridgeCloses {
		plan.serverErr = rerr.Error()
	}
	plan.mu.Unlock()
}

// ---- model client ----------------------------------------------------------------

// tapConn sits between KCP and the RedialPacketConn: it learns the session's
// KCP conversation id from outgoing packets and checks every incoming packet.
type tapConn struct {
	net.PacketConn
	plan *sessionPlan
	res  *vlib.Result
}

func (t *tapConn) WriteTo(p []byte, a net.Addr) (int, error) {
	if len(p) >= 4 {
		c := binary.LittleEndian.Uint32(p)
		t.plan.mu.Lock()
		if !t.plan.convKnown {
			t.plan.conv, t.plan.convKnown = c, true
		}
		t.plan.mu.Unlock()
	}
	return t.PacketConn.WriteTo(p, a)
}

func (t *tapConn) ReadFrom(p []byte) (int, net.Addr, error) {
	n, a, err := t.PacketConn.ReadFrom(p)
	if err == nil && n >= 4 {
		c := binary.LittleEndian.Uint32(p)
		t.plan.mu.Lock()
		known, own := t.plan.convKnown, t.plan.conv
		if known && c != own {
			t.plan.foreignPkts++
			first := t.plan.foreignPkts == 1
			t.plan.mu.Unlock()
			if first {
				t.res.Violate("c05:foreign-packet-on-carrier", fmt.Sprintf("session %x (KCP conversation %08x) received a downstream packet of conversation %08x on its own carrier", t.plan.Tag, own, c), map[string]interface{}{"case": fmt.Sprintf("sess/%x", t.plan.Tag), "plan": t.plan})
			}
		} else {
			t.plan.ownPkts++
			t.plan.mu.Unlock()
		}
	}
	return n, a, err
}

// doubleConn fans one session out over two carriers that are alive at once.
type doubleConn struct {
	a, b   net.PacketConn
	rq     chan []byte
	errc   chan error
	n      uint32
	closed chan struct{}
	once   sync.Once
	// survive: when one of the two carriers ends, the session goes on over the
	// other one alone (an older carrier that outlives a newer one)
	survive bool
	deadA   int32
	deadB   int32
}

func newDoubleConn(a, b net.PacketConn) *doubleConn { return newDoubleConnOpt(a, b, false) }

func newDoubleConnOpt(a, b net.PacketConn, survive bool) *doubleConn {
	d := &doubleConn{a: a, b: b, rq: make(chan []byte, 256), errc: make(chan error, 2), closed: make(chan struct{}), survive: survive}
	rd := func(c net.PacketConn) {
		for {
			buf := make([]byte, 2048)
			n, _, err := c.ReadFrom(buf)
			if err != nil {
				if d.survive {
					mine, other := &d.deadA, &d.deadB
					if c == b {
						mine, other = &d.deadB, &d.deadA
					}
					atomic.StoreInt32(mine, 1)
					if atomic.LoadInt32(other) == 0 {
						return // the other carrier carries on
					}
				}
				d.errc <- err
				return
			}
			select {
			case d.rq <- buf[:n]:
			case <-d.closed:
				return
			}
		}
	}
	go rd(a)
	go rd(b)
	return d
}
func (d *doubleConn) ReadFrom(p []byte) (int, net.Addr, error) {
	select {
	case b := <-d.rq:
		return copy(p, b), dummyAddr{}, nil
	case err := <-d.errc:
		return 0, nil, err
	case <-d.closed:
		return 0, nil, errors.New("closed")
	}
}
func (d *doubleConn) WriteTo(p []byte, addr net.Addr) (int, error) {
	if d.survive {
		if atomic.LoadInt32(&d.deadA) == 1 {
			return d.b.WriteTo(p, addr)
		}
		if atomic.LoadInt32(&d.deadB) == 1 {
			return d.a.WriteTo(p, addr)
		}
	}
	if atomic.AddUint32(&d.n, 1)%2 == 0 {
		return d.a.WriteTo(p, addr)
	}
	return d.b.WriteTo(p, addr)
}
func (d *doubleConn) Close() error {
	d.once.Do(func() { close(d.closed) })
	d.a.Close()
	return d.b.Close()
}
func (d *doubleConn) LocalAddr() net.Addr                { return dummyAddr{} }
func (d *doubleConn) SetDeadline(t time.Time) error      { return nil }
func (d *doubleConn) SetReadDeadline(t time.Time) error  { return nil }
func (d *doubleConn) SetWriteDeadline(t time.Time) error { return nil }

type modelClient struct {
	plan     *sessionPlan
	f        *forwarder
	res      *vlib.Result
	clientID turbotunnel.ClientID
	dials    int32
	stop     chan struct{}
	handoff  func(n int) // waits until the server has recorded n addresses for this ClientID
}

// openCarrier opens one WebSocket carrier through the forwarder and sends
// Token||ClientID, as newSession's dial function does with a WebRTC peer.
func (m *modelClient) openCarrier(ctx context.Context, clientIP string) (net.PacketConn, error) {
	u := url.URL{Scheme: "ws", Host: m.f.addr(), Path: "/"}
	if clientIP != "\x00absent" {
		q := u.Query()
		q.Set("client_ip", clientIP)
		u.RawQuery = q.Encode()
	}
	d := websocket.Dialer{HandshakeTimeout: 10 * time.Second}
	ws, _, err := d.DialContext(ctx, u.String(), nil)
	if err != nil {
		return nil, err
	}
	conn := websocketconn.New(ws)
	if _, err := conn.Write(turbotunnel.Token[:]); err != nil {
		conn.Close()
		return nil, err
	}
	if _, err := conn.Write(m.clientID[:]); err != nil {
		conn.Close()
		return nil, err
	}
	return newEncapsulationPacketConn(dummyAddr{}, dummyAddr{}, conn), nil
}

func (m *modelClient) ipFor(i int) string {
	if len(m.plan.IPs) == 0 {
		return "\x00absent"
	}
	return m.plan.IPs[i%len(m.plan.IPs)]
}

// dial never returns an error while a carrier can still be had (a blocking Pop).
func (m *modelClient) dial(ctx context.Context) (net.PacketConn, error) {
	for {
		select {
		case <-m.stop:
			m.plan.mu.Lock()
			m.plan.dialEnded = true
			m.plan.mu.Unlock()
			return nil, errors.New("model client stopped")
		default:
		}
		i := int(atomic.LoadInt32(&m.f.next))
		p := m.f.planFor(i)
		if p.GapMs > 0 {
			time.Sleep(time.Duration(p.GapMs) * time.Millisecond)
		}
		atomic.AddInt32(&m.dials, 1)
		if p.Kind == "handoff" && m.handoff != nil {
			// a first carrier presents the ClientID with one address and goes
			// away before any packet; the session is then established over a
			// second carrier with another address
			if c0, err := m.openCarrier(ctx, m.ipFor(i)); err == nil {
				m.handoff(1)
				c0.Close()
				m.res.Obs("handoff_first_carriers", 1)
			}
			i++
		}
		var c0 net.PacketConn
		if p.Kind == "handoff-overlap" && m.handoff != nil {
			// a first carrier presents the ClientID with one address and stays;
			// a second carrier presents it with another address; only then does
			// the first one leave, and the server is given time to finish with it
			// before the first packet establishes the session over the second
			if c, err := m.openCarrier(ctx, m.ipFor(i)); err == nil {
				m.handoff(1)
				c0 = c
			}
			i++
		}
		c1, err := m.openCarrier(ctx, m.ipFor(i))
		if err != nil {
			if c0 != nil {
				c0.Close()
			}
			time.Sleep(5 * time.Millisecond)
			continue
		}
		if c0 != nil {
			m.handoff(2)
			c0.Close()
			time.Sleep(200 * time.Millisecond) // synchronisation aid only: lets the first carrier's handler end
			m.res.Obs("handoff_overlapping_first_carriers", 1)
		}
		m.plan.mu.Lock()
		m.plan.carriersUsed++
		m.plan.mu.Unlock()
		if p.Kind == "double" || p.Kind == "double-older-survives" {
			c2, err := m.openCarrier(ctx, m.ipFor(i+1))
			if err == nil {
				m.res.Obs("double_carriers", 1)
				m.plan.mu.Lock()
				m.plan.carriersUsed++
				m.plan.mu.Unlock()
				if p.Kind == "double-older-survives" {
					m.res.Obs("double_carriers_whose_older_one_outlives_the_newer", 1)
				}
				return newDoubleConnOpt(c1, c2, p.Kind == "double-older-survives"), nil
			}
		}
		return c1, nil
	}
}

// run executes the session: both directions at once, M-stream checked.
func (m *modelClient) run(deadline time.Duration) {
	plan := m.plan
	pconn := turbotunnel.NewRedialPacketConn(dummyAddr{}, dummyAddr{}, m.dial)
	defer pconn.Close()
	defer close(m.stop)
	conn, err := kcp.NewConn2(dummyAddr{}, nil, 0, 0, &tapConn{PacketConn: pconn, plan: plan, res: m.res})
	if err != nil {
		m.setErr("kcp: " + err.Error())
		return
	}
	defer conn.Close()
	conn.SetStreamMode(true)
	conn.SetWindowSize(WindowSize, WindowSize)
	conn.SetNoDelay(0, 0, 0, 1)
	cfg := smux.DefaultConfig()
	cfg.Version = 2
	cfg.KeepAliveTimeout = 10 * time.Minute
	cfg.MaxStreamBuffer = StreamSize
	sess, err := smux.Client(conn, cfg)
	if err != nil {
		m.setErr("smux: " + err.Error())
		return
	}
	defer sess.Close()
	stream, err := sess.OpenStream()
	if err != nil {
		m.setErr("open stream: " + err.Error())
		return
	}
	defer stream.Close()
	wdone := make(chan error, 1)
	go func() {
		r := vlib.NewRand(plan.Tag).Split("up-chunks")
		if _, err := stream.Write(vlib.StreamHeader(plan.Tag, 0, plan.LenUp)); err != nil {
			wdone <- err
			return
		}
		var off uint64
		buf := make([]byte, 32768)
		for off < plan.LenUp {
			n := uint64(r.Range(1, len(buf)))
			if r.Chance(1, 8) {
				n = uint64(r.Range(1, 64))
			}
			if off+n > plan.LenUp {
				n = plan.LenUp - off
			}
			vlib.FillKey(plan.Tag, 0, off, buf[:n])
			if _, err := stream.Write(buf[:n]); err != nil {
				wdone <- err
				return
			}
			off += n
		}
		wdone <- nil
	}()
	rdone := make(chan error, 1)
	go func() {
		var hdr [vlib.StreamHeaderLen]byte
		if _, err := io.ReadFull(stream, hdr[:]); err != nil {
			rdone <- err
			return
		}
		tag, dir, length, ok := vlib.ParseStreamHeader(hdr[:])
		if !ok || tag != plan.Tag || dir != 1 || length != plan.LenDown {
			cls := "not a stream header"
			if ok {
				cls = fmt.Sprintf("header of session %x dir %d", tag, dir)
			}
			m.res.Violate("stream:wrong-byte:downstream", fmt.Sprintf("session %x: downstream begins with %x (%s)", plan.Tag, hdr[:], cls), map[string]interface{}{"case": fmt.Sprintf("sess/%x", plan.Tag), "plan": plan})
			rdone <- errors.New("bad header")
			return
		}
		chk := &vlib.StreamChecker{Tag: plan.Tag, Dir: 1}
		buf := make([]byte, 32768)
		for chk.Off < plan.LenDown {
			n, err := stream.Read(buf)
			if n > 0 {
				if chk.Off+uint64(n) > plan.LenDown {
					m.res.Violate("stream:extra-bytes:downstream", fmt.Sprintf("session %x: client side read more than the %d bytes written", plan.Tag, plan.LenDown), map[string]interface{}{"case": fmt.Sprintf("sess/%x", plan.Tag), "plan": plan})
					rdone <- errors.New("extra")
					return
				}
				if !chk.Check(buf[:n]) {
					m.res.Violate("stream:wrong-byte:downstream", chk.Fail, map[string]interface{}{"case": fmt.Sprintf("sess/%x", plan.Tag), "plan": plan})
					rdone <- errors.New("mismatch")
					return
				}
				plan.mu.Lock()
				plan.downVerified = chk.Off
				plan.mu.Unlock()
			}
			if err != nil {
				rdone <- err
				return
			}
		}
		rdone <- nil
	}()
	timer := time.NewTimer(deadline)
	defer timer.Stop()
	tick := time.NewTicker(time.Second)
	defer tick.Stop()
	var lastProg uint64
	lastProgAt := time.Now()
	lastPkts, lastPktAt, usableSecs := 0, time.Now(), 0
	var werr, rerr error
	wOK, rOK := false, false
	allArrived := func() bool {
		plan.mu.Lock()
		defer plan.mu.Unlock()
		return plan.upVerified >= plan.LenUp
	}
	// the session is complete when both directions are written and read here AND
	// the bridge side has verified everything written upstream (the client must
	// not go away earlier: nothing would carry the rest); the stall rules and the
	// watchdog keep applying until then
	for !(wOK && rOK && allArrived()) {
		select {
		case werr = <-wdone:
			wOK = true
			if werr != nil {
				m.setErr("write: " + werr.Error())
				return
			}
		case rerr = <-rdone:
			rOK = true
			if rerr != nil {
				m.setErr("read: " + rerr.Error())
				return
			}
		case <-timer.C:
			m.setErr("watchdog")
			return
		case <-tick.C:
			plan.mu.Lock()
			prog := plan.upVerified + plan.downVerified
			plan.mu.Unlock()
			now := time.Now()
			if prog != lastProg {
				lastProg, lastProgAt = prog, now
			}
			// rule B: a session that is incomplete has unacknowledged data on one
			// side, which KCP retransmits at least every 60 s, and every packet
			// that arrives is acknowledged: with a usable carrier almost all the
			// time, downstream packets must keep arriving
			plan.mu.Lock()
			pk := plan.ownPkts + plan.foreignPkts
			plan.mu.Unlock()
			if pk != lastPkts {
				lastPkts, lastPktAt, usableSecs = pk, now, 0
			} else if atomic.LoadInt32(&m.f.usable) > 0 {
				usableSecs++
			}
			if now.Sub(lastPktAt) > 200*time.Second && usableSecs >= 190 {
				m.res.Violate("c05:no-downstream-packet-on-usable-carriers", fmt.Sprintf("session %x: no downstream packet reached the client for %v although a carrier forwarding in both directions was connected during at least %d s of that time and the transfer is incomplete", plan.Tag, now.Sub(lastPktAt).Round(time.Second), usableSecs), map[string]interface{}{"case": fmt.Sprintf("sess/%x", plan.Tag), "plan": planSnapshot(plan)})
				m.setErr("stalled")
				return
			}
			ls := atomic.LoadInt64(&m.f.liveSince)
			if ls == 0 {
				// no continuously usable carrier: (re)start the observation period
				lastProgAt = now
				continue
			}
			if since := time.Unix(0, ls); now.Sub(lastProgAt) > stallLimit && now.Sub(since) > stallLimit {
				m.res.Violate("c01:no-progress-with-live-carrier", fmt.Sprintf("session %x: a carrier forwarding in both directions has been connected for %v, yet no further byte was delivered to either end for %v (KCP's largest retransmission timeout is 60 s) and the transfer is incomplete", plan.Tag, now.Sub(since).Round(time.Second), now.Sub(lastProgAt).Round(time.Second)), map[string]interface{}{"case": fmt.Sprintf("sess/%x", plan.Tag), "plan": planSnapshot(plan)})
				m.setErr("stalled")
				return
			}
		}
	}
	plan.mu.Lock()
	plan.clientDone = true
	plan.mu.Unlock()
}

func (m *modelClient) setErr(s string) {
	m.plan.mu.Lock()
	m.plan.clientErr = s
	m.plan.mu.Unlock()
}

// stallLimit: more than twice KCP's maximal retransmission timeout (60 s).
const stallLimit = 150 * time.Second

func waitFor(d time.Duration, f func() bool) bool {
	end := time.Now().Add(d)
	for {
		if f() {
			return true
		}
		if time.Now().After(end) {
			return false
		}
		time.Sleep(5 * time.Millisecond)
	}
}

// planSnapshot is what goes into replay files.
func planSnapshot(p *sessionPlan) map[string]interface{} {
	p.mu.Lock()
	defer p.mu.Unlock()
	return map[string]interface{}{
		"tag": fmt.Sprintf("%x", p.Tag), "len_up": p.LenUp, "len_down": p.LenDown, "carrier_plans": p.Carriers, "client_ips": p.IPs,
		"accepts": p.accepts, "remote_addrs": p.remoteAddrs, "carriers_used": p.carriersUsed, "up_verified": p.upVerified, "down_verified": p.downVerified,
		"client_done": p.clientDone, "server_done": p.serverDone, "client_err": p.clientErr, "server_err": p.serverErr, "own_packets": p.ownPkts, "foreign_packets": p.foreignPkts,
	}
}
