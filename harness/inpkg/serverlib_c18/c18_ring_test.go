// C18 (a) — the bounded ClientID -> address ring map and the client_ip
// sanitiser of the server.  Injected into /repo/server/lib (go 1.13 language).
//
// Ring oracle, derived from the property text ("remembers at most a fixed
// number of the most recent ClientIDs and forgets the oldest first ... never
// another session's address"): the map remembers the last cap Set operations;
// Get(id) is the address of the most recent Set(id) if that Set is one of the
// last cap Sets, and absent otherwise.  (Read from turbotunnel.go: a re-Set of
// a remembered id takes a NEW slot and leaves the old slot in the ring, so
// "the last cap Set operations", not "cap distinct ids", is what the fixed
// memory holds; the doc comment says the same: "Adding a new entry using the
// Set method causes the oldest existing entry to be forgotten".)  The reference
// is kept as (number of Sets so far, index and address of the last Set of each
// id) and never looks at the ring.
//
// Sanitiser oracle: an independent net/netip classification of the parameter;
// the result must be "a valid, specified IP address rendered with a stub port,
// or empty when the parameter is absent, unparseable or unspecified".
package snowflake_server

import (
	"fmt"
	"net"
	"net/netip"
	"strings"
	"sync"
	"testing"

	"git.torproject.org/pluggable-transports/snowflake.git/v2/common/turbotunnel"
	"verif/vlib"
)

// ---- ring reference -----------------------------------------------------------

type vRingRef struct {
	capacity int
	sets     int                          // number of Set operations so far
	lastIdx  map[turbotunnel.ClientID]int // 1-based index of the most recent Set of the id
	lastAddr map[turbotunnel.ClientID]net.Addr
	idAt     []turbotunnel.ClientID // idAt[k-1] = id of the k-th Set
	owner    map[string]string      // address text -> id it was Set for (addresses are unique per Set)
}

func vNewRingRef(capacity int) *vRingRef {
	return &vRingRef{capacity: capacity, lastIdx: map[turbotunnel.ClientID]int{}, lastAddr: map[turbotunnel.ClientID]net.Addr{}, owner: map[string]string{}}
}

func (r *vRingRef) set(id turbotunnel.ClientID, a net.Addr) {
	r.sets++
	r.lastIdx[id] = r.sets
	r.lastAddr[id] = a
	r.idAt = append(r.idAt, id)
	if a != nil {
		r.owner[a.String()] = id.String()
	}
}

func (r *vRingRef) get(id turbotunnel.ClientID) (net.Addr, bool) {
	k, ok := r.lastIdx[id]
	if !ok || k <= r.sets-r.capacity {
		return nil, false
	}
	return r.lastAddr[id], true
}

type vRingOp struct {
	Op   string `json:"op"`
	ID   string `json:"id"`
	Addr string `json:"addr,omitempty"`
}

type vRingReplay struct {
	Case     string    `json:"case"`
	Capacity int       `json:"capacity"`
	Keys     int       `json:"keys"`
	Sets     int       `json:"sets_so_far"`
	Script   []vRingOp `json:"script_tail"`
	Want     string    `json:"want"`
	Got      string    `json:"got"`
}

func vAddrText(a net.Addr, ok bool) string {
	if !ok {
		return "(absent)"
	}
	if a == nil {
		return "(nil addr)"
	}
	return a.String()
}

func vMakeID(r *vlib.Rand, k int) turbotunnel.ClientID {
	var id turbotunnel.ClientID
	if k == 0 {
		return id // the all-zero ClientID is what unused ring slots hold
	}
	copy(id[:], r.SplitN("id", k).Bytes(len(id)))
	return id
}

// vRingSequence runs one PRNG Set/Get sequence against a fresh map.
func vRingSequence(res *vlib.Result, root *vlib.Rand, capacity, seq int) {
	r := root.SplitN(fmt.Sprintf("ring/%d", capacity), seq)
	caseID := fmt.Sprintf("ring/cap=%d/seq=%d", capacity, seq)
	// how many ids: few (constant overwrites), around the capacity (constant
	// evictions), or more
	var nKeys int
	switch seq % 6 {
	case 0:
		nKeys = 1 + r.Intn(3)
	case 1:
		nKeys = capacity
	case 2:
		nKeys = capacity + 1
	case 3:
		nKeys = 2*capacity + 1
	case 4:
		nKeys = capacity/2 + 1
	default:
		nKeys = 1 + r.Intn(2*capacity+4)
	}
	if nKeys < 1 {
		nKeys = 1
	}
	ids := make([]turbotunnel.ClientID, nKeys)
	for k := range ids {
		ids[k] = vMakeID(r, k)
	}
	nOps := 40 + 6*capacity
	if capacity > 1000 {
		nOps = 3*capacity + 500
	}
	skew := r.Chance(1, 2)   // half the sequences favour a few hot ids
	roundRobin := seq%6 == 3 // Sets walk through 2cap+1 ids in turn: the ring is always full of distinct ids
	next := 0
	pick := func() int {
		if roundRobin {
			next++
			return next % nKeys
		}
		if skew && r.Chance(2, 3) {
			return r.Intn(1 + nKeys/8)
		}
		return r.Intn(nKeys)
	}

	m := newClientIDMap(capacity)
	ref := vNewRingRef(capacity)
	var script []vRingOp
	record := func(op vRingOp) {
		script = append(script, op)
		if len(script) > 64 {
			script = script[len(script)-64:]
		}
	}
	evictions, overwrites, forgottenSeen, rememberedSeen := 0, 0, 0, 0
	bad := false

	check := func(id turbotunnel.ClientID, why string) {
		if bad {
			return
		}
		var got net.Addr
		var ok bool
		rp := vRingReplay{Case: caseID, Capacity: capacity, Keys: nKeys, Sets: ref.sets}
		if res.Guard("panic:clientIDMap.Get", rp, func() { got, ok = m.Get(id) }) {
			bad = true
			return
		}
		want, wok := ref.get(id)
		record(vRingOp{Op: "get(" + why + ")", ID: id.String(), Addr: vAddrText(got, ok)})
		res.Obs("ring_gets_checked", 1)
		if wok {
			rememberedSeen++
		} else if _, ever := ref.lastIdx[id]; ever {
			forgottenSeen++
		}
		if ok == wok && (!ok || got == want) {
			return
		}
		bad = true
		rp.Script = append([]vRingOp{}, script...)
		rp.Want, rp.Got = vAddrText(want, wok), vAddrText(got, ok)
		switch {
		case ok && !wok:
			res.Violatef("ring:forgotten-id-still-answers", rp, "capacity %d, after %d Sets: Get(%s) = %s, but the most recent Set of that id is no longer among the last %d Sets", capacity, ref.sets, id, rp.Got, capacity)
		case !ok && wok:
			res.Violatef("ring:live-id-lost", rp, "capacity %d, after %d Sets: Get(%s) is absent, but Set #%d of that id is among the last %d Sets (want %s)", capacity, ref.sets, id, ref.lastIdx[id], capacity, rp.Want)
		default:
			sig := "ring:stale-address"
			if got == nil || ref.owner[got.String()] != id.String() {
				sig = "ring:another-ids-address"
			}
			res.Violatef(sig, rp, "capacity %d, after %d Sets: Get(%s) = %s, want %s", capacity, ref.sets, id, rp.Got, rp.Want)
		}
	}

	recurring := r.Bool()
	for op := 0; op < nOps && !bad; op++ {
		if r.Chance(3, 5) {
			k := pick()
			id := ids[k]
			var a net.Addr = ClientMapAddr(fmt.Sprintf("192.0.2.%d:%d", k%250, op+1)) // unique per Set (port = op number)
			if recurring {
				// what real carriers present: the same client address again and again (a
				// session's next carrier comes from the same client), or two alternating
				a = ClientMapAddr(fmt.Sprintf("192.0.2.%d:%d", k%250, 1+r.Intn(2)))
				res.Obs("ring_sets_with_a_recurring_address", 1)
			}
			if r.Chance(1, 50) {
				a = ClientMapAddr("") // what the sanitiser gives for an absent client_ip
			}
			if _, remembered := ref.get(id); remembered {
				overwrites++
			}
			rp := vRingReplay{Case: caseID, Capacity: capacity, Keys: nKeys, Sets: ref.sets}
			if res.Guard("panic:clientIDMap.Set", rp, func() { m.Set(id, a) }) {
				bad = true
				break
			}
			ref.set(id, a)
			record(vRingOp{Op: "set", ID: id.String(), Addr: a.String()})
			// memory bound
			if len(m.current) > capacity || len(m.entries) > capacity {
				rp.Script = append([]vRingOp{}, script...)
				res.Violatef("ring:memory-bound", rp, "capacity %d: after %d Sets the lookup map holds %d ids and the ring %d slots", capacity, ref.sets, len(m.current), len(m.entries))
				bad = true
				break
			}
			res.ObsMax(fmt.Sprintf("ring_max_ids_held_cap_%d", vCapClass(capacity)), int64(len(m.current)))
			// the two ids on the edge of the window: the Set that just fell out
			// and the oldest one still inside
			if j := ref.sets - capacity; j >= 1 && j <= len(ref.idAt) {
				old := ref.idAt[j-1]
				if ref.lastIdx[old] == j {
					evictions++
				}
				check(old, "just-forgotten-slot")
			}
			if j := ref.sets - capacity + 1; j >= 1 && j <= len(ref.idAt) {
				check(ref.idAt[j-1], "oldest-remembered-slot")
			}
			check(id, "just-set")
			if nKeys <= 24 {
				for _, x := range ids {
					check(x, "sweep")
				}
			}
		} else {
			check(ids[r.Intn(nKeys)], "prng")
		}
	}
	res.Eval(1)
	res.Obs("ring_sequences", 1)
	res.Obs("ring_sets", int64(ref.sets))
	res.Obs("ring_evictions_of_a_current_id", int64(evictions))
	res.Obs("ring_overwrites_of_a_remembered_id", int64(overwrites))
	res.Obs("ring_gets_of_forgotten_ids", int64(forgottenSeen))
	res.Obs("ring_gets_of_remembered_ids", int64(rememberedSeen))
	if capacity == 0 {
		res.Obs("ring_sequences_capacity_0", 1)
	}
	if capacity > 1000 {
		res.Obs("ring_sequences_capacity_10240", 1)
	}
	if evictions > 0 && overwrites > 0 {
		res.Distinct(caseID)
	}
	if seq == 1 && capacity >= 2 && capacity <= 4 {
		res.Sample(6, map[string]interface{}{"case": caseID, "keys": nKeys, "ops": nOps, "evictions": evictions, "overwrites": overwrites, "script_tail": script[len(script)-vMinInt(len(script), 10):]})
	}
}

func vMinInt(a, b int) int {
	if a < b {
		return a
	}
	return b
}

func vCapClass(c int) int {
	if c > 1000 {
		return 10240
	}
	return c
}

// vRingConcurrent: goroutines with disjoint ids; whatever Get(id) answers must
// be an address that was Set for that id, and since only one goroutine sets a
// given id, the most recent one.
func vRingConcurrent(res *vlib.Result, root *vlib.Rand, capacity, round int) {
	caseID := fmt.Sprintf("ring-concurrent/cap=%d/%d", capacity, round)
	m := newClientIDMap(capacity)
	const workers = 8
	var wg sync.WaitGroup
	var mu sync.Mutex
	foreign, stale, present := 0, 0, 0
	var example string
	for w := 0; w < workers; w++ {
		r := root.SplitN(caseID, w)
		wg.Add(1)
		go func(w int, r *vlib.Rand) {
			defer wg.Done()
			var ids [3]turbotunnel.ClientID
			for k := range ids {
				ids[k] = vMakeID(r, 1000*w+k+1)
			}
			last := map[turbotunnel.ClientID]string{}
			for op := 0; op < 400; op++ {
				id := ids[r.Intn(len(ids))]
				if r.Bool() {
					a := fmt.Sprintf("w%d/%s/%d", w, id, op)
					m.Set(id, ClientMapAddr(a))
					last[id] = a
				} else if got, ok := m.Get(id); ok {
					mu.Lock()
					present++
					s := ""
					if got != nil {
						s = got.String()
					}
					if !strings.HasPrefix(s, fmt.Sprintf("w%d/%s/", w, id)) {
						foreign++
						example = fmt.Sprintf("Get(%s) by worker %d = %q", id, w, s)
					} else if s != last[id] {
						stale++
						example = fmt.Sprintf("Get(%s) by worker %d = %q, last Set %q", id, w, s, last[id])
					}
					mu.Unlock()
				}
			}
		}(w, r)
	}
	wg.Wait()
	res.Eval(1)
	res.Obs("ring_concurrent_rounds", 1)
	res.Obs("ring_concurrent_present_answers", int64(present))
	rp := map[string]interface{}{"case": caseID, "capacity": capacity, "workers": workers, "example": example}
	if foreign > 0 {
		res.Violatef("ring:another-ids-address", rp, "concurrent Set/Get with disjoint ids, capacity %d: %d answers carried an address set for another id (%s)", capacity, foreign, example)
	}
	if stale > 0 {
		res.Violatef("ring:stale-address", rp, "concurrent Set/Get with disjoint ids, capacity %d: %d answers were not the id's most recent address (%s)", capacity, stale, example)
	}
	if len(m.current) > capacity || len(m.entries) > capacity {
		res.Violatef("ring:memory-bound", rp, "capacity %d: lookup map holds %d ids, ring %d slots", capacity, len(m.current), len(m.entries))
	}
}

// ---- sanitiser ------------------------------------------------------------------

type vSanIn struct {
	s    string
	kind string
}

func vV4(r *vlib.Rand) string {
	switch r.Intn(6) {
	case 0:
		return fmt.Sprintf("%d.%d.%d.%d", r.Intn(4), r.Intn(2), r.Intn(2), r.Intn(3))
	case 1:
		return r.PickString([]string{"127.0.0.1", "255.255.255.255", "10.0.0.1", "192.168.1.1", "224.0.0.1", "169.254.1.1", "0.0.0.1", "1.0.0.0", "100.64.0.1"})
	}
	return fmt.Sprintf("%d.%d.%d.%d", r.Intn(256), r.Intn(256), r.Intn(256), r.Intn(256))
}

func vV6Bytes(r *vlib.Rand) [16]byte {
	var b [16]byte
	switch r.Intn(5) {
	case 0:
		r.Fill(b[:])
	case 1: // sparse: compresses with ::
		for i := 0; i < 3; i++ {
			b[r.Intn(16)] = byte(r.Intn(256))
		}
	case 2:
		copy(b[:], []byte{0x20, 0x01, 0x0d, 0xb8})
		r.Fill(b[12:])
	case 3: // v4-mapped
		b[10], b[11] = 0xff, 0xff
		r.Fill(b[12:])
	default: // all zero but the tail
		b[15] = byte(r.Intn(3))
		b[14] = byte(r.Intn(2))
	}
	return b
}

func vV6Text(r *vlib.Rand, b [16]byte) string {
	a := netip.AddrFrom16(b)
	switch r.Intn(6) {
	case 0: // expanded
		p := make([]string, 8)
		for i := range p {
			p[i] = fmt.Sprintf("%x", uint16(b[2*i])<<8|uint16(b[2*i+1]))
		}
		return strings.Join(p, ":")
	case 1: // expanded, zero padded, upper case
		p := make([]string, 8)
		for i := range p {
			p[i] = fmt.Sprintf("%04X", uint16(b[2*i])<<8|uint16(b[2*i+1]))
		}
		return strings.Join(p, ":")
	case 2: // dotted tail
		p := make([]string, 6)
		for i := range p {
			p[i] = fmt.Sprintf("%x", uint16(b[2*i])<<8|uint16(b[2*i+1]))
		}
		return strings.Join(p, ":") + fmt.Sprintf(":%d.%d.%d.%d", b[12], b[13], b[14], b[15])
	case 3:
		return strings.ToUpper(a.String())
	}
	return a.String()
}

var vMutAlphabet = []rune("0123456789abcdefABCDEFgxz:.%[]/ -+\t\n\x00é١")

func vGenSanitiserInput(r *vlib.Rand) vSanIn {
	switch r.Intn(20) {
	case 0, 1, 2:
		return vSanIn{vV4(r), "ipv4"}
	case 3, 4, 5:
		return vSanIn{vV6Text(r, vV6Bytes(r)), "ipv6"}
	case 6:
		return vSanIn{r.PickString([]string{"0.0.0.0", "::", "0:0:0:0:0:0:0:0", "::0", "0::", "::0.0.0.0", "::ffff:0.0.0.0", "::ffff:0:0",
			"0000:0000:0000:0000:0000:0000:0000:0000", "0::0", "0:0::0.0.0.0", "0:0:0:0:0:ffff:0.0.0.0", "0:0:0:0:0:FFFF:0:0"}), "unspecified"}
	case 7:
		z := r.PickString([]string{"eth0", "1", "lo", "", "eth0%eth1", "%", "é", " ", "a b", "0"})
		return vSanIn{vV6Text(r, vV6Bytes(r)) + "%" + z, "zone"}
	case 8:
		return vSanIn{vV4(r) + "%" + r.PickString([]string{"eth0", "1", ""}), "zone-on-ipv4"}
	case 9:
		p := r.PickString([]string{"0", "1", "80", "443", "65535", "65536", "", "http", "-1"})
		if r.Bool() {
			return vSanIn{vV4(r) + ":" + p, "ipv4:port"}
		}
		return vSanIn{"[" + vV6Text(r, vV6Bytes(r)) + "]:" + p, "[ipv6]:port"}
	case 10:
		if r.Bool() {
			return vSanIn{"[" + vV6Text(r, vV6Bytes(r)) + "]", "brackets"}
		}
		return vSanIn{"[" + vV4(r) + "]", "brackets"}
	case 11:
		// an IPv6 text followed by :port without brackets — often a valid address itself
		return vSanIn{vV6Text(r, vV6Bytes(r)) + ":" + fmt.Sprint(r.Intn(70000)), "ipv6:port-unbracketed"}
	case 12:
		return vSanIn{r.PickString([]string{"", " ", "abc", "localhost", "example.com", "1.2.3", "1.2.3.4.5", "256.1.1.1", "1.2.3.256", "01.2.3.4", "1.2.3.04",
			"0x1.2.3.4", "1.2.3.-4", "1..3.4", ".1.2.3.4", "1.2.3.4.", "1,2,3,4", "１.2.3.4", "1.2.3.٤", ":::", "1::2::3", "12345::", "g::1", "::ffff:256.0.0.1",
			"::1.2.3", "1:2:3:4:5:6:7", "1:2:3:4:5:6:7:8:9", "1:2:3:4:5:6:7::8", ":1:2:3:4:5:6:7", "1:2:3:4:5:6:7:", "::ffff:1.2.3.4.5", "1.2.3.4::", "::1.2.3.4:5",
			"1.2.3.4/24", "::1/128", "2130706433", "0177.0.0.1", "127.1", "%eth0", "[", "]", "[]", "[::", "::]", "\x00", "1.2.3.4\x00", "\x001.2.3.4", "1.2.3.4\n", "\n::1",
			" 1.2.3.4", "1.2.3.4 ", "\t::1", "::1\r\n", "+1.2.3.4", "1.2.3.+4", "1e0.2.3.4", "::ffff:01.2.3.4", "fe80::1%", "::%"}), "garbage-list"}
	case 13:
		return vSanIn{string(r.Bytes(r.Intn(24))), "random-bytes"}
	case 14:
		return vSanIn{r.StringFrom(vMutAlphabet, r.Intn(20)), "random-address-alphabet"}
	case 15:
		n := r.PickInt([]int{100, 1000, 70000})
		switch r.Intn(3) {
		case 0:
			return vSanIn{strings.Repeat("1", n), "long"}
		case 1:
			return vSanIn{"1.2.3." + strings.Repeat("0", n) + "4", "long-leading-zeros"}
		}
		return vSanIn{"::" + strings.Repeat("0", n) + "1", "long-leading-zeros-v6"}
	case 16:
		return vSanIn{r.PickString([]string{" ", "\t", "\n", "\r\n"}) + vV4(r), "leading-space"}
	}
	// a valid text with one or two character edits
	var s string
	if r.Bool() {
		s = vV4(r)
	} else {
		s = vV6Text(r, vV6Bytes(r))
	}
	rs := []rune(s)
	for k := r.Range(1, 2); k > 0 && len(rs) > 0; k-- {
		i := r.Intn(len(rs))
		c := vMutAlphabet[r.Intn(len(vMutAlphabet))]
		switch r.Intn(3) {
		case 0:
			rs[i] = c
		case 1:
			rs = append(rs[:i], rs[i+1:]...)
		default:
			rs = append(rs[:i], append([]rune{c}, rs[i:]...)...)
		}
	}
	return vSanIn{string(rs), "mutated-valid"}
}

func vShort(s string) string {
	if len(s) > 80 {
		return fmt.Sprintf("%q…(%d bytes)", s[:80], len(s))
	}
	return fmt.Sprintf("%q", s)
}

// vCheckSanitiser returns the reference class of the input.
func vCheckSanitiser(res *vlib.Result, in vSanIn, caseID string) string {
	res.Eval(1)
	rp := map[string]interface{}{"case": caseID, "client_ip": in.s, "client_ip_hex": fmt.Sprintf("%x", vTrunc(in.s, 200)), "len": len(in.s), "kind": in.kind}
	var got net.Addr
	if res.Guard("sanitise:panic", rp, func() { got = clientAddr(in.s) }) {
		return "panic"
	}
	if got == nil {
		res.Violatef("sanitise:nil-addr", rp, "clientAddr(%s) returned a nil net.Addr", vShort(in.s))
		return "nil"
	}
	gs := got.String()
	rp["got"] = gs

	a, err := netip.ParseAddr(in.s)
	class := ""
	switch {
	case in.s == "":
		class = "absent"
	case err != nil:
		class = "unparseable"
	case a.Zone() != "":
		class = "zoned" // parseable or not is a matter of definition: either outcome is accepted
	case a.Unmap().IsUnspecified():
		class = "unspecified"
	default:
		class = "valid"
	}
	switch class {
	case "absent", "unparseable", "unspecified":
		if gs != "" {
			res.Violatef("sanitise:"+class+"-passed", rp, "clientAddr(%s) = %q, want empty (%s)", vShort(in.s), gs, class)
		}
		return class
	case "zoned":
		if gs == "" {
			return class
		}
	}
	// a valid, specified IP address rendered with a stub port
	if gs == "" {
		res.Violatef("sanitise:valid-dropped", rp, "clientAddr(%s) is empty, but the parameter is the valid, specified address %s", vShort(in.s), a)
		return class
	}
	ap, perr := netip.ParseAddrPort(gs)
	if perr != nil {
		sig := "sanitise:not-ip-port"
		if _, e2 := netip.ParseAddr(strings.Trim(gs, "[]")); e2 == nil {
			sig = "sanitise:port-stub-missing"
		}
		res.Violatef(sig, rp, "clientAddr(%s) = %q is not IP:port (%v)", vShort(in.s), gs, perr)
		return class
	}
	if ap.Port() == 0 {
		res.Violatef("sanitise:port-stub-missing", rp, "clientAddr(%s) = %q has port 0", vShort(in.s), gs)
	}
	if ap.Addr().Zone() != "" && class != "zoned" {
		res.Violatef("sanitise:zone-leaked", rp, "clientAddr(%s) = %q carries a zone", vShort(in.s), gs)
	}
	if ap.Addr().WithZone("").Unmap() != a.WithZone("").Unmap() {
		res.Violatef("sanitise:wrong-address", rp, "clientAddr(%s) = %q, which is not the address %s", vShort(in.s), gs, a)
	}
	if ap.Addr().Unmap().IsUnspecified() {
		res.Violatef("sanitise:unspecified-passed", rp, "clientAddr(%s) = %q is the unspecified address", vShort(in.s), gs)
	}
	// the form that USERADDR wants must also be what net understands
	if h, p, e := net.SplitHostPort(gs); e != nil || net.ParseIP(h) == nil || p == "" {
		res.Violatef("sanitise:not-ip-port", rp, "clientAddr(%s) = %q: net.SplitHostPort/ParseIP reject it", vShort(in.s), gs)
	}
	return class
}

func vTrunc(s string, n int) string {
	if len(s) > n {
		return s[:n]
	}
	return s
}

// ---- the test -------------------------------------------------------------------

func TestVerifC18Ring(t *testing.T) {
	res := vlib.NewResult("C18", "inpkg-c18-ring", "ring: PRNG Set/Get sequences on fresh clientIDMaps of capacity 0..16 and 10240 with 1..2cap+4 ids (hot-id skew in half of them), every Get compared with a reference that only counts Sets; after each Set the two ids on the edge of the window, the id just set and (few ids) all ids are queried; non-trivial = sequence in which a current id was evicted AND a remembered id was overwritten, distinct by (capacity, sequence). sanitiser: PRNG client_ip strings of 18 kinds (IPv4/IPv6 in several spellings, unspecified spellings, zones, ports, brackets, garbage, edits of valid texts, long strings) against a net/netip classification; distinct by input string")
	defer res.Finish()
	root := vlib.NewRand(vlib.Seed()).Split("c18ring")

	// the map the server really uses
	res.Note("clientIDAddrMap_capacity", len(clientIDAddrMap.entries))
	if len(clientIDAddrMap.entries) != clientIDAddrMapCapacity || clientIDAddrMapCapacity <= 0 {
		res.Violatef("ring:memory-bound", map[string]interface{}{"case": "global"}, "the server's clientIDAddrMap has %d slots, clientIDAddrMapCapacity = %d", len(clientIDAddrMap.entries), clientIDAddrMapCapacity)
	}

	nSeq := vlib.Scale(60, 1500)
	for capacity := 0; capacity <= 16; capacity++ {
		for s := 0; s < nSeq; s++ {
			vRingSequence(res, root, capacity, s)
		}
	}
	for s := 0; s < vlib.Scale(6, 60); s++ {
		vRingSequence(res, root, 10240, s)
	}
	for _, capacity := range []int{0, 1, 2, 3, 8, 16, 24, 64} {
		for round := 0; round < vlib.Scale(4, 60); round++ {
			vRingConcurrent(res, root, capacity, round)
		}
	}

	nSan := vlib.Scale(60000, 2000000)
	sr := root.Split("sanitiser")
	for i := 0; i < nSan; i++ {
		in := vGenSanitiserInput(sr.SplitN("in", i))
		class := vCheckSanitiser(res, in, fmt.Sprintf("sanitise/%d", i))
		res.Obs("sanitiser_inputs", 1)
		res.Obs("sanitiser_class_"+class, 1)
		res.Obs("sanitiser_kind_"+in.kind, 1)
		res.Distinct("san:" + vTrunc(in.s, 120) + fmt.Sprint(len(in.s)))
		if i < 4 {
			res.Sample(12, map[string]interface{}{"case": fmt.Sprintf("sanitise/%d", i), "client_ip": vTrunc(in.s, 100), "kind": in.kind, "class": class})
		}
	}
	// the fixed spellings, every one of them
	for i, s := range []string{"", "0.0.0.0", "::", "0:0:0:0:0:0:0:0", "::ffff:0.0.0.0", "::0.0.0.0", "[::]", "[12::34]", "1.2.3.4", "1:2::3:4", "::ffff:1.2.3.4", "fe80::1%eth0", "1.2.3.4:80", "[::1]:80", "abc", "1.2.3.4.5"} {
		class := vCheckSanitiser(res, vSanIn{s, "fixed"}, fmt.Sprintf("sanitise-fixed/%d", i))
		res.Obs("sanitiser_class_"+class, 1)
	}

	res.RequireObs("ring_sequences", int64(17*nSeq))
	res.RequireObs("ring_sequences_capacity_0", int64(nSeq))
	res.RequireObs("ring_sequences_capacity_10240", 6)
	res.RequireObs("ring_evictions_of_a_current_id", 5000)
	res.RequireObs("ring_overwrites_of_a_remembered_id", 5000)
	res.RequireObs("ring_gets_of_forgotten_ids", 5000)
	res.RequireObs("ring_gets_of_remembered_ids", 5000)
	res.RequireObs("ring_max_ids_held_cap_10240", 10240)
	res.RequireObs("ring_max_ids_held_cap_16", 16)
	res.RequireObs("ring_concurrent_rounds", 32)
	res.RequireObs("sanitiser_inputs", int64(nSan))
	res.RequireObs("sanitiser_class_valid", 10000)
	res.RequireObs("sanitiser_class_unparseable", 10000)
	res.RequireObs("sanitiser_class_unspecified", 1000)
	res.RequireObs("sanitiser_class_zoned", 500)
	res.RequireObs("sanitiser_class_absent", 1)
}
