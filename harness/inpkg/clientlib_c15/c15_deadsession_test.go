// C15 - Close after the data path has died. The connection is assembled the way
// Transport.Dial does it (NewPeers, connectLoop, newSession, OpenStream), but
// its snowflakes come from a scripted collector whose peers hold a real pion data
// channel that never opened: the first write of the data path to the popped
// peer fails, the redialing packet connection ends with that error, and the
// KCP/smux session underneath the stream is dead. The application then writes
// (gets an error) and only then calls Close - which must still melt the
// collection, close every peer the connection holds and stop all further
// rendezvous attempts.
package snowflake_client

import (
	"fmt"
	"io"
	"sync"
	"sync/atomic"
	"testing"
	"time"

	"github.com/pion/webrtc/v3"
	"verif/vlib"
)

type c15DeadTongue struct {
	mu      sync.Mutex
	max     int
	peers   []*WebRTCPeer
	catches int64
	lastAt  int64 // unix nanos of the last Catch
	// gate: no peer is handed out before the harness has its stream (the data
	// path dies with the first write to a peer; a stream can only be opened
	// while the session is still alive - on a loaded machine the death used to
	// win that race)
	gate chan struct{}
}

func (t *c15DeadTongue) GetMax() int { return t.max }

func (t *c15DeadTongue) Catch() (*WebRTCPeer, error) {
	atomic.AddInt64(&t.catches, 1)
	atomic.StoreInt64(&t.lastAt, time.Now().UnixNano())
	if t.gate != nil {
		<-t.gate
	}
	pc, err := webrtc.NewPeerConnection(webrtc.Configuration{})
	if err != nil {
		return nil, err
	}
	dc, err := pc.CreateDataChannel("dead", nil) // never negotiated: Send fails
	if err != nil {
		pc.Close()
		return nil, err
	}
	p := &WebRTCPeer{id: fmt.Sprintf("dead-%d", atomic.LoadInt64(&t.catches)), pc: pc, transport: dc, open: make(chan struct{}), closed: make(chan struct{}), bytesLogger: bytesNullLogger{}}
	p.recvPipe, p.writePipe = io.Pipe()
	t.mu.Lock()
	t.peers = append(t.peers, p)
	t.mu.Unlock()
	return p, nil
}

func TestVerifC15ConnDeadSession(t *testing.T) {
	res := vlib.NewResult("C15", "inpkg-clientlib-c15-conn-deadsession", "a connection assembled as Transport.Dial does, fed by a scripted collector whose peers carry a data channel that never opened: the data path's first write fails, the session under the stream dies; the application reads and writes until it gets errors, then calls Close (once / twice); judged: the collection is melted, every peer caught so far is closed, no Catch begins after Close for longer than ReconnectTimeout; Max 1..3; non-trivial = scenario whose data path was dead before Close; distinct by (max, close mode)")
	defer res.Finish()
	c15Quiet(res)
	type sc struct {
		max  int
		mode string
	}
	scs := []sc{{1, "once"}, {2, "twice"}, {3, "once"}}
	if vlib.Thorough() {
		scs = append(scs, sc{1, "twice"}, sc{2, "once"}, sc{3, "twice"}, sc{5, "once"})
	}
	var wg sync.WaitGroup
	for _, s := range scs {
		wg.Add(1)
		go func(s sc) {
			defer wg.Done()
			name := fmt.Sprintf("deadsession/max=%d/close=%s", s.max, s.mode)
			rec := map[string]interface{}{"case": name}
			tongue := &c15DeadTongue{max: s.max, gate: make(chan struct{})}
			var gateOnce sync.Once
			openGate := func() { gateOnce.Do(func() { close(tongue.gate) }) }
			defer openGate()
			snowflakes, err := NewPeers(tongue)
			if err != nil {
				res.Inconcl(name + ": NewPeers: " + err.Error())
				return
			}
			snowflakes.bytesLogger = bytesNullLogger{}
			go connectLoop(snowflakes)
			pconn, sess, err := newSession(snowflakes)
			if err != nil {
				res.Inconcl(name + ": newSession: " + err.Error())
				snowflakes.End()
				return
			}
			stream, err := sess.OpenStream()
			if err != nil {
				// the session may already be dead: that is the state we want, but
				// without a stream there is no connection object to close
				res.Inconcl(name + ": OpenStream: " + err.Error())
				snowflakes.End()
				pconn.Close()
				sess.Close()
				return
			}
			conn := &SnowflakeConn{Stream: stream, sess: sess, pconn: pconn, snowflakes: snowflakes}
			openGate()
			res.Eval(1)
			// the application side: write until the error surfaces (bounded by state: the
			// session is closed once the packet connection has ended)
			dead := false
			for i := 0; i < 1200 && !dead; i++ {
				if _, err := conn.Write([]byte("application data")); err != nil {
					dead = true
					rec["write_error"] = err.Error()
					break
				}
				if sess.IsClosed() {
					// one more write records the error on the stream
					_, err := conn.Write([]byte("x"))
					dead = err != nil
					break
				}
				time.Sleep(50 * time.Millisecond)
			}
			if !dead {
				res.Inconcl(name + ": the data path did not die within 60 s")
				conn.Close()
				return
			}
			res.Obs("deadsession_data_path_dead_before_close", 1)
			closeRet := make(chan error, 2)
			go func() { closeRet <- conn.Close() }()
			select {
			case <-closeRet:
			case <-time.After(45 * time.Second):
				res.Inconcl(name + ": Close did not return within 45 s")
				return
			}
			if s.mode == "twice" {
				res.Guard("panic:SnowflakeConn.Close:second-call", rec, func() { conn.Close() })
			}
			catchesAtClose := atomic.LoadInt64(&tongue.catches)
			// melted?
			melted := false
			select {
			case <-snowflakes.melt:
				melted = true
			default:
			}
			if !melted {
				res.Violate("c15:close-did-not-end-collection:dead-session", name+": after Close returned the collection of snowflakes is not melted (the session under the stream had died before Close was called)", rec)
			}
			// every peer closed? (a Catch in flight at Close may still return one: give it the attempt)
			time.Sleep(500 * time.Millisecond)
			tongue.mu.Lock()
			open := 0
			for _, p := range tongue.peers {
				if !p.Closed() {
					open++
				}
			}
			n := len(tongue.peers)
			tongue.mu.Unlock()
			rec["peers_caught"] = n
			if open > 0 {
				rec["peers_still_open"] = open
				res.Violate("c15:peer-not-closed-after-end:dead-session", fmt.Sprintf("%s: after Close returned %d of the %d peers the connection had caught are still open", name, open, n), rec)
			}
			// no further rendezvous
			time.Sleep(ReconnectTimeout + 2500*time.Millisecond)
			if k := atomic.LoadInt64(&tongue.catches); k > catchesAtClose+0 {
				rec["catches_after_close"] = k - catchesAtClose
				res.Violate("c15:rendezvous-after-close:dead-session", fmt.Sprintf("%s: %d attempt(s) to obtain a peer began after Close had returned", name, k-catchesAtClose), rec)
			}
			res.Obs("deadsession_scenarios_judged", 1)
			res.Distinct(name)
			res.Sample(2, rec)
			// tidy up whatever a broken Close left behind
			snowflakes.End()
			tongue.mu.Lock()
			for _, p := range tongue.peers {
				p.Close()
			}
			tongue.mu.Unlock()
		}(s)
	}
	wg.Wait()
	res.RequireObs("deadsession_scenarios_judged", int64(len(scs)*2/3))
}
