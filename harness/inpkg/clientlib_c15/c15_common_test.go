// C15 — client bounds its peers, survives failed rendezvous, always shuts down.
// Shared helpers of the three in-package parts (package snowflake_client).
//
// go 1.13 language rules (module declares go 1.13): no generics, no `any`,
// loop variables are shared across iterations.
package snowflake_client

import (
	"log"
	"runtime"
	"strings"
	"sync"
	"sync/atomic"
	"time"

	"verif/vlib"
)

var c15QuietOnce sync.Once

// c15Res is the result of the running part (for the log sink below).
var c15Res atomic.Value // *vlib.Result

// c15LogSink drops the package's log output (thousands of lines per second in
// the schedule part; crash traces still reach stderr) and doubles as the
// monitor for "a failed attempt never terminates the client process" by way
// of log.Fatal*: the write of a Fatal call is the last thing that happens
// before os.Exit(1), so the violation is recorded and saved from inside it.
type c15LogSink struct{}

func (c15LogSink) Write(p []byte) (int, error) {
	var pcs [24]uintptr
	n := runtime.Callers(2, pcs[:])
	frames := runtime.CallersFrames(pcs[:n])
	var stack []string
	fatal := false
	for {
		f, more := frames.Next()
		stack = append(stack, f.Function)
		if strings.HasPrefix(f.Function, "log.Fatal") || strings.HasPrefix(f.Function, "log.(*Logger).Fatal") {
			fatal = true
		}
		if !more {
			break
		}
	}
	if fatal {
		if res, ok := c15Res.Load().(*vlib.Result); ok && res != nil {
			res.Violate("c15:process-exit:log-fatal", "the code under test calls log.Fatal (os.Exit) on an error path: "+strings.TrimSpace(string(p)),
				map[string]interface{}{"case": "log-fatal", "message": strings.TrimSpace(string(p)), "stack": stack})
			res.Save()
		}
	}
	return len(p), nil
}

// c15Quiet installs the log sink.
func c15Quiet(res *vlib.Result) {
	c15Res.Store(res)
	c15QuietOnce.Do(func() { log.SetOutput(c15LogSink{}) })
}

// c15GID returns the id of the calling goroutine as printed in dumps.
func c15GID() string {
	var b [64]byte
	n := runtime.Stack(b[:], false)
	s := strings.TrimPrefix(string(b[:n]), "goroutine ")
	if i := strings.IndexByte(s, ' '); i > 0 {
		return s[:i]
	}
	return "?"
}

func c15Sleep(ms int) {
	if ms > 0 {
		time.Sleep(time.Duration(ms) * time.Millisecond)
	}
}

// c15WaitUntil polls cond until it holds or d elapsed.
func c15WaitUntil(d time.Duration, cond func() bool) bool {
	end := time.Now().Add(d)
	for {
		if cond() {
			return true
		}
		if time.Now().After(end) {
			return false
		}
		time.Sleep(5 * time.Millisecond)
	}
}

// c15FindG returns the goroutine with the given id in a parsed dump.
func c15FindG(gs []vlib.Goroutine, id string) *vlib.Goroutine {
	for i := range gs {
		if gs[i].ID == id {
			return &gs[i]
		}
	}
	return nil
}

// c15Innermost returns the innermost frame of g that belongs to the snowflake
// module (code under test or in-package harness), "" if none.
func c15Innermost(g *vlib.Goroutine) string {
	for _, f := range g.Frames {
		if strings.Contains(f, "snowflake.git/") && !strings.HasPrefix(f, "created by ") {
			return f
		}
	}
	return ""
}

// c15EndOnLock: g is parked on a mutex directly inside Peers.End / Peers.end
// (not merely a repeated End waiting in sync.Once for the first one).
func c15EndOnLock(g *vlib.Goroutine) bool {
	if !strings.HasPrefix(g.State, "sync.Mutex.Lock") {
		return false
	}
	in := c15Innermost(g)
	if strings.Contains(in, "(*Peers).end") { // also the method-value wrapper (*Peers).end-fm
		return true
	}
	return strings.HasSuffix(in, "(*Peers).End") && !g.HasFrame("sync.(*Once)")
}

// c15CollectInHandover: g is parked for good inside Collect itself, i.e. in
// its hand-over to the channel: a plain `chan send`, or a `select` (the
// hand-over select has no timer case; Collect's only other select has a
// default and cannot park). A goroutine inside Catch or inside a hook has a
// deeper snowflake frame and does not match.
func c15CollectInHandover(g *vlib.Goroutine) bool {
	if !strings.HasPrefix(g.State, "chan send") && !strings.HasPrefix(g.State, "select") {
		return false
	}
	if strings.HasPrefix(g.State, "select (no cases)") {
		return false
	}
	return strings.HasSuffix(c15Innermost(g), "(*Peers).Collect")
}

// c15PionCount counts goroutines that have a frame of a pion package (the
// ICE agent, DTLS, SCTP, mux loops of a PeerConnection that was not closed).
func c15PionCount() (int, map[string]int) {
	by := map[string]int{}
	n := 0
	for _, g := range vlib.ParseDump(vlib.DumpAll()) {
		hit := ""
		for _, f := range g.Frames {
			if strings.Contains(f, "github.com/pion/") && !strings.HasPrefix(f, "created by ") {
				hit = f
			}
		}
		if hit == "" {
			for _, f := range g.Frames {
				if strings.HasPrefix(f, "created by ") && strings.Contains(f, "github.com/pion/") {
					hit = f
				}
			}
		}
		if hit != "" {
			n++
			if len(by) < 40 {
				by[hit]++
			}
		}
	}
	return n, by
}

// c15PionQuiesce waits until the pion goroutine count has been unchanged for
// `stable` (or max elapsed) and returns it.
func c15PionQuiesce(stable, max time.Duration) (int, map[string]int) {
	deadline := time.Now().Add(max)
	last, by := c15PionCount()
	since := time.Now()
	for time.Now().Before(deadline) {
		time.Sleep(100 * time.Millisecond)
		n, b := c15PionCount()
		if n != last {
			last, by, since = n, b, time.Now()
			continue
		}
		by = b
		if time.Since(since) >= stable {
			break
		}
	}
	return last, by
}
