// C15 — client bounds its peers, survives failed rendezvous, always shuts down.
// Shared helpers of the three in-package parts (package snowflake_client).
//
// go 1.13 language rules (module declares go 1.13): no generics, no `any`,
// loop variables are shared across iterations.
package snowflake_client

import (
	"io/ioutil"
	"log"
	"runtime"
	"strings"
	"sync"
	"time"

	"verif/vlib"
)

var c15QuietOnce sync.Once

// c15Quiet drops the package's log output (thousands of lines per second in
// the schedule part); crash traces still reach stderr.
func c15Quiet() {
	c15QuietOnce.Do(func() { log.SetOutput(ioutil.Discard) })
}

// c15GID returns the id of the calling goroutine as printed in dumps.
func c15GID() string {
	var b [64]byte
	n := runtime.Stack(b[:], false)
	s := strings.TrimPrefix(string(b[:n]), "goroutine ")
	if i := strings.IndexByte(s, ' '); i > 0 {
		return s[:i]
	}
	return "?"
}

func c15Sleep(ms int) {
	if ms > 0 {
		time.Sleep(time.Duration(ms) * time.Millisecond)
	}
}

// c15WaitUntil polls cond until it holds or d elapsed.
func c15WaitUntil(d time.Duration, cond func() bool) bool {
	end := time.Now().Add(d)
	for {
		if cond() {
			return true
		}
		if time.Now().After(end) {
			return false
		}
		time.Sleep(5 * time.Millisecond)
	}
}

// c15FindG returns the goroutine with the given id in a parsed dump.
func c15FindG(gs []vlib.Goroutine, id string) *vlib.Goroutine {
	for i := range gs {
		if gs[i].ID == id {
			return &gs[i]
		}
	}
	return nil
}

// c15PionCount counts goroutines that have a frame of a pion package (the
// ICE agent, DTLS, SCTP, mux loops of a PeerConnection that was not closed).
func c15PionCount() (int, map[string]int) {
	by := map[string]int{}
	n := 0
	for _, g := range vlib.ParseDump(vlib.DumpAll()) {
		hit := ""
		for _, f := range g.Frames {
			if strings.Contains(f, "github.com/pion/") && !strings.HasPrefix(f, "created by ") {
				hit = f
			}
		}
		if hit == "" {
			for _, f := range g.Frames {
				if strings.HasPrefix(f, "created by ") && strings.Contains(f, "github.com/pion/") {
					hit = f
				}
			}
		}
		if hit != "" {
			n++
			if len(by) < 40 {
				by[hit]++
			}
		}
	}
	return n, by
}

// c15PionQuiesce waits until the pion goroutine count has been unchanged for
// `stable` (or max elapsed) and returns it.
func c15PionQuiesce(stable, max time.Duration) (int, map[string]int) {
	deadline := time.Now().Add(max)
	last, by := c15PionCount()
	since := time.Now()
	for time.Now().Before(deadline) {
		time.Sleep(100 * time.Millisecond)
		n, b := c15PionCount()
		if n != last {
			last, by, since = n, b, time.Now()
			continue
		}
		by = b
		if time.Since(since) >= stable {
			break
		}
	}
	return last, by
}
