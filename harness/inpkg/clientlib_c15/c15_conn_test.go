// C15 part 3 — the exported close path: Transport.Dial() / (*SnowflakeConn).Close()
// with the real WebRTCDialer, the real connectLoop and the real data path
// (KCP/smux over RedialPacketConn), against the scripted rendezvous and the
// pion answerer of part 2.
//
// Monitors: Close returns (waiting at most for the attempt in flight); a second
// Close (sequential or concurrent) returns normally; after Close returned no
// Exchange with the broker begins (observed for longer than ReconnectTimeout);
// every PeerConnection the connection held is closed (no goroutine with pion
// frames left once the far side is closed too). TestVerifC15ConnBadICE runs
// Dial with unusable ICE configurations: the failure happens in connectLoop's
// own goroutine, so "never terminates the client process" is observed as the
// survival of this test process (vcheck reports the crash otherwise).
package snowflake_client

import (
	"fmt"
	"net"
	"strings"
	"sync"
	"sync/atomic"
	"testing"
	"time"

	"git.torproject.org/pluggable-transports/snowflake.git/v2/common/event"
	"git.torproject.org/pluggable-transports/snowflake.git/v2/common/nat"
	"verif/vlib"
)

type c15ConnScript struct {
	Case      string `json:"case"`
	Max       int    `json:"max"`
	Outcome   string `json:"rendezvous_outcome"`
	HoldMs    int    `json:"exchange_blocks_until_ms_after_close_called"` // -1: Exchange does not block
	CloseAt   string `json:"close_at"`
	CloseMode string `json:"close_mode"` // once | twice-seq | twice-conc
	ICE       c15ICE `json:"ice"`
}

type c15ConnRun struct {
	res      *vlib.Result
	sc       c15ConnScript
	rv       *c15Rendezvous
	ans      *c15Answerer
	mu       sync.Mutex
	closeGID []string
	events   []string
	t0       time.Time
}

func (c *c15ConnRun) ev(format string, a ...interface{}) {
	c.mu.Lock()
	if len(c.events) < 100 {
		c.events = append(c.events, fmt.Sprintf("t=%dms %s", time.Since(c.t0)/time.Millisecond, fmt.Sprintf(format, a...)))
	}
	c.mu.Unlock()
}

func (c *c15ConnRun) rec() map[string]interface{} {
	c.mu.Lock()
	defer c.mu.Unlock()
	return map[string]interface{}{"case": c.sc.Case, "script": c.sc, "events": append([]string{}, c.events...),
		"exchange_calls": atomic.LoadInt64(&c.rv.calls)}
}

func (c *c15ConnRun) closeOnce(conn net.Conn, n int, total int) {
	id := c15GID()
	c.mu.Lock()
	c.closeGID = append(c.closeGID, id)
	c.mu.Unlock()
	c.ev("Close call %d begins", n)
	c.res.Obs("close_calls", 1)
	var e interface{}
	func() {
		defer func() { e = recover() }()
		conn.Close()
	}()
	if e != nil {
		c.ev("Close call %d PANICS: %v", n, e)
		sig := "c15:panic:close"
		if total > 1 {
			sig = "c15:panic:end-twice"
		}
		c.res.Violate(sig, fmt.Sprintf("%s: (*SnowflakeConn).Close call %d of %d panics: %v", c.sc.Case, n, total, e), c.rec())
		return
	}
	c.ev("Close call %d returns", n)
}

// c15DumpHas reports whether some goroutine has a frame containing sub.
func c15DumpHas(sub string) int {
	n := 0
	for _, g := range vlib.ParseDump(vlib.DumpAll()) {
		for _, f := range g.Frames {
			if strings.Contains(f, sub) && !strings.HasPrefix(f, "created by ") {
				n++
				break
			}
		}
	}
	return n
}

var c15Linger sync.WaitGroup

func c15RunConn(res *vlib.Result, sc c15ConnScript) {
	c := &c15ConnRun{res: res, sc: sc, ans: &c15Answerer{}, t0: time.Now()}
	began := make(chan struct{}, 64)
	c.rv = &c15Rendezvous{outcome: sc.Outcome, ans: c.ans, began: func() {
		c.ev("Exchange begins")
		select {
		case began <- struct{}{}:
		default:
		}
	}}
	if sc.HoldMs >= 0 {
		c.rv.hold = make(chan struct{})
	}
	res.CaseLog(sc.Case)
	base, _ := c15PionQuiesce(500*time.Millisecond, 10*time.Second)
	evs := event.NewSnowflakeEventDispatcher()
	broker := &BrokerChannel{Rendezvous: c.rv, keepLocalAddresses: true, natType: nat.NATUnknown}
	tr := &Transport{dialer: NewWebRTCDialerWithEvents(broker, parseIceServers(sc.ICE.Addrs), sc.Max, evs), eventDispatcher: evs}
	conn, err := tr.Dial()
	if err != nil {
		res.Inconcl(sc.Case + ": Dial failed: " + err.Error())
		return
	}
	c.ev("Dial returned")
	// the moment of Close
	switch sc.CloseAt {
	case "during-exchange", "during-exchange-then-connect":
		select {
		case <-began:
		case <-time.After(20 * time.Second):
			res.Inconcl(sc.Case + ": no Exchange began within 20 s")
		}
		time.Sleep(50 * time.Millisecond)
	case "between-attempts":
		select {
		case <-began:
		case <-time.After(20 * time.Second):
			res.Inconcl(sc.Case + ": no Exchange began within 20 s")
		}
		c15WaitUntil(5*time.Second, func() bool { return atomic.LoadInt64(&c.rv.inFlight) == 0 })
		time.Sleep(400 * time.Millisecond)
	case "peer-in-use":
		// the data path has popped the peer and written its token to it
		ok := c15WaitUntil(20*time.Second, func() bool { return c.ans.messages() > 0 })
		if !ok {
			res.Inconcl(sc.Case + ": the connected peer never received data from the data path")
		} else {
			res.Obs("conn_peer_in_use_at_close", 1)
		}
		time.Sleep(200 * time.Millisecond)
	case "during-datachannel-wait":
		select {
		case <-began:
		case <-time.After(20 * time.Second):
		}
		c15WaitUntil(10*time.Second, func() bool { return atomic.LoadInt64(&c.rv.inFlight) == 0 })
		time.Sleep(500 * time.Millisecond) // connect() is now waiting DataChannelTimeout for OnOpen
	}
	total := 1
	if sc.CloseMode != "once" {
		total = 2
	}
	done := make(chan struct{})
	go func() {
		defer close(done)
		switch sc.CloseMode {
		case "twice-conc":
			var g sync.WaitGroup
			g.Add(2)
			go func() { defer g.Done(); c.closeOnce(conn, 0, total) }()
			go func() { defer g.Done(); c.closeOnce(conn, 1, total) }()
			g.Wait()
		case "twice-seq":
			c.closeOnce(conn, 0, total)
			c.closeOnce(conn, 1, total)
		default:
			c.closeOnce(conn, 0, total)
		}
	}()
	if c.rv.hold != nil {
		// Close must be allowed to wait for the attempt in flight: note whether it did
		select {
		case <-done:
			res.Obs("close_returned_while_exchange_in_flight", 1)
		case <-time.After(time.Duration(sc.HoldMs) * time.Millisecond):
			res.Obs("close_waited_for_exchange_in_flight", 1)
		}
		c.ev("Exchange released")
		close(c.rv.hold)
	}
	returned := true
	select {
	case <-done:
	case <-time.After(45 * time.Second): // > DataChannelTimeout + gathering; then judge by state
		returned = false
		c.judgeClose()
	}
	callsAtClose := atomic.LoadInt64(&c.rv.calls)
	if returned {
		res.Obs("close_sequences_returned", 1)
		// every peer closed: with the far side closed too, no pion goroutine is left
		c.ans.closeAll()
		left, by := c15PionQuiesce(2*time.Second, 30*time.Second)
		if left > base {
			time.Sleep(3 * time.Second)
			left, by = c15PionQuiesce(2*time.Second, 10*time.Second)
		}
		res.Obs("conn_pion_quiescence_checks", 1)
		if left > base {
			rec := c.rec()
			rec["pion_goroutines"] = map[string]int{"before_dial": base, "after_close": left}
			rec["pion_goroutines_left"] = by
			res.Violate("c15:peer-not-closed-after-end", fmt.Sprintf("%s: after Close returned (and the far side was closed) %d goroutines with pion frames remain (%d before Dial): a PeerConnection the connection held is still open", sc.Case, left, base), rec)
		}
		// no further rendezvous: watch for longer than ReconnectTimeout, in the background
		c15Linger.Add(1)
		go func() {
			defer c15Linger.Done()
			time.Sleep(ReconnectTimeout + 2500*time.Millisecond)
			res.Obs("conn_lingered_past_reconnect_timeout", 1)
			if n := atomic.LoadInt64(&c.rv.calls); n > callsAtClose {
				res.Violate("c15:rendezvous-after-close", fmt.Sprintf("%s: %d Exchange call(s) began after Close had returned", sc.Case, n-callsAtClose), c.rec())
			}
		}()
	}
	res.Eval(1)
	res.Obs("conn_scenarios", 1)
	res.Obs("conn_exchange_calls", callsAtClose)
	if returned {
		res.Distinct(sc.Case)
	}
	res.Sample(3, c.rec())
}

func (c *c15ConnRun) judgeClose() {
	gs := vlib.ParseDump(vlib.DumpAll())
	c.mu.Lock()
	ids := append([]string{}, c.closeGID...)
	c.mu.Unlock()
	endParked, sendParked := false, false
	excerpt := ""
	for _, id := range ids {
		if g := c15FindG(gs, id); g != nil {
			excerpt += g.Raw + "\n"
			if c15EndOnLock(g) {
				endParked = true
			}
		}
	}
	for i := range gs {
		g := &gs[i]
		if c15CollectInHandover(g) && g.HasFrame("connectLoop") {
			sendParked = true
			excerpt += g.Raw + "\n"
		}
	}
	rec := c.rec()
	rec["goroutines"] = excerpt
	if endParked && sendParked {
		c.res.Violate("c15:end-blocked:collect-handover-send-holds-lock", c.sc.Case+": Close has not returned 45 s after it was called: End parked on collectLock, connectLoop's Collect parked in its hand-over to the channel", rec)
	} else {
		c.res.Inconcl(c.sc.Case + ": Close has not returned after 45 s; state not the known deadlock: " + excerpt)
	}
}

func (a *c15Answerer) messages() int64 { return atomic.LoadInt64(&a.msgs) }

func TestVerifC15Conn(t *testing.T) {
	res := vlib.NewResult("C15", "inpkg-clientlib-c15-conn", "Transport.Dial + (*SnowflakeConn).Close with the real dialer/connectLoop/data path against the scripted rendezvous: Close between attempts, during a blocked Exchange (which then fails or yields a connecting peer), with a connected peer in use by the data path, during the DataChannelTimeout wait; once / twice sequentially / twice concurrently; Max 1..3; non-trivial = scenario whose Close sequence returned; distinct by scenario")
	defer res.Finish()
	c15Quiet(res)
	shard, nshards := vlib.Shard()
	none := c15ICE{Class: "none", Valid: true}
	var scs []c15ConnScript
	add := func(max int, outcome string, hold int, at, mode string) {
		scs = append(scs, c15ConnScript{Case: fmt.Sprintf("conn/%s/%s/max=%d/close=%s", at, outcome, max, mode), Max: max, Outcome: outcome, HoldMs: hold, CloseAt: at, CloseMode: mode, ICE: none})
	}
	add(1, "never-connects", -1, "during-datachannel-wait", "twice-seq")
	add(1, "connects", -1, "peer-in-use", "twice-seq")
	add(2, "connects", -1, "peer-in-use", "twice-conc")
	add(3, "connects", -1, "peer-in-use", "once")
	add(1, "connects", 300, "during-exchange-then-connect", "once")
	add(2, "connects", 300, "during-exchange-then-connect", "twice-seq")
	add(1, "transport-error", 300, "during-exchange", "twice-seq")
	add(2, "error-member", 300, "during-exchange", "twice-conc")
	add(1, "transport-error", -1, "between-attempts", "twice-seq")
	add(3, "error-member", -1, "between-attempts", "twice-conc")
	add(2, "garbage-sdp", -1, "between-attempts", "once")
	if vlib.Thorough() {
		for max := 1; max <= 5; max++ {
			for _, m := range []string{"once", "twice-seq", "twice-conc"} {
				add(max, "connects", -1, "peer-in-use", m)
				add(max, "connects", 200, "during-exchange-then-connect", m)
				add(max, "non-200", 200, "during-exchange", m)
				add(max, "malformed-json", -1, "between-attempts", m)
			}
		}
	}
	n := 0
	for i, sc := range scs {
		if i%nshards != shard {
			continue
		}
		c15RunConn(res, sc)
		n++
	}
	c15Linger.Wait()
	// every connection was closed: no connectLoop may be left (see report: title-level reading)
	if k := c15DumpHas("lib.connectLoop"); k > 0 {
		time.Sleep(ReconnectTimeout + time.Second)
		if k2 := c15DumpHas("lib.connectLoop"); k2 > 0 {
			res.Violate("c15:connect-loop-survives-end", fmt.Sprintf("%d connectLoop goroutine(s) still running after every connection was closed (and %v later)", k2, ReconnectTimeout), map[string]interface{}{"case": "conn/all-closed", "scenarios": n})
		}
	}
	res.RequireObs("conn_scenarios", int64(n))
	res.RequireObs("close_sequences_returned", 1)
	res.RequireObs("conn_lingered_past_reconnect_timeout", 1)
}

// TestVerifC15ConnBadICE: the client with an ICE configuration pion rejects.
// The attempt fails inside connectLoop's goroutine; the property says it is
// reported and retried, and never terminates the process.
func TestVerifC15ConnBadICE(t *testing.T) {
	res := vlib.NewResult("C15", "inpkg-clientlib-c15-conn-badice", "Transport.Dial with ICE configurations pion rejects (empty URL = the default -ice, garbage, unsupported scheme, TURN without credentials): connectLoop's attempt must fail as an error, the process must survive, Close must return; non-trivial = configuration whose Dial+1.5 s+Close completed; distinct by ICE class")
	defer res.Finish()
	c15Quiet(res)
	for _, ic := range c15ICEList(3478, 3479) {
		if ic.Valid {
			continue
		}
		ic := ic
		name := "conn-bad-ice/" + ic.Class
		res.CaseLog(name + " (the failing attempt runs in connectLoop's goroutine: a panic there kills the process)")
		res.Save()
		rv := &c15Rendezvous{outcome: "transport-error", ans: &c15Answerer{}}
		evs := event.NewSnowflakeEventDispatcher()
		broker := &BrokerChannel{Rendezvous: rv, keepLocalAddresses: true, natType: nat.NATUnknown}
		tr := &Transport{dialer: NewWebRTCDialerWithEvents(broker, parseIceServers(ic.Addrs), 1, evs), eventDispatcher: evs}
		conn, err := tr.Dial()
		if err != nil {
			res.Inconcl(name + ": Dial failed: " + err.Error())
			continue
		}
		time.Sleep(1500 * time.Millisecond)
		done := make(chan struct{})
		go func() {
			defer close(done)
			res.Guard("c15:panic:close", map[string]interface{}{"case": name, "ice": ic}, func() { conn.Close() })
		}()
		select {
		case <-done:
			res.Distinct(name)
			res.Obs("bad_ice_configurations_survived", 1)
		case <-time.After(30 * time.Second):
			res.Inconcl(name + ": Close did not return in 30 s")
		}
		res.Eval(1)
	}
	res.RequireObs("bad_ice_configurations_survived", 1)
}
