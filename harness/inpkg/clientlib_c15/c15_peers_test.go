// C15 part 1 — Peers under a scripted Tongue.
//
// Engine: inpkg (package snowflake_client: needs WebRTCPeer's unexported
// fields to build peers without a pion connection, connectLoop, and the
// hand-over channel's len/cap for the replay record).
//
// The fake Tongue is both the actuator (Catch results follow a script:
// success after a delay, three error kinds, block until released) and the
// observation point: every peer ever created is known to the harness, peers
// closing "on their own" are closed and recorded under the harness lock with
// a sequence number, Pop calls get a sequence number when they begin.
//
// Oracles (each only what the property text says):
//   over-capacity        live (created and not Closed()) peers > Max at a Catch entry or exit
//   pop-returned-closed  Pop returned a peer whose closing was recorded before that Pop began
//   end-blocked          End has not returned long after every Catch was released, and the
//                        goroutine dump shows End parked on collectLock while a collector is
//                        parked in Collect's hand-over send (state, not a stopwatch)
//   panic:end-twice      a second End/Close panics
//   peer-not-closed      after every issued End returned, some created peer is not closed
//   catch-after-end      a Catch begins after every issued End returned
//   collect-refused-below-capacity / connect-loop-survives-end: see the report (slightly
//                        beyond the literal text; they cannot fire on a correct Peers)
package snowflake_client

import (
	"errors"
	"fmt"
	"strings"
	"sync"
	"testing"
	"time"

	"git.torproject.org/pluggable-transports/snowflake.git/v2/common/verifhook"
	"verif/vlib"
)

const (
	c15HookHandover  = "client.peers.collect.before-handover"
	c15HookAfterMelt = "client.peers.end.after-melt"
)

// ---- scripts (JSON-marshalable: they are the replay) ---------------------------

type c15Step struct {
	Kind      string `json:"kind"` // ok | err-timeout | err-broker | err-ice | block-ok | block-err
	DelayMs   int    `json:"delay_ms,omitempty"`
	UntilEnd  bool   `json:"release_after_end_called,omitempty"` // block-*: released ReleaseMs after the first End call
	ReleaseMs int    `json:"release_ms,omitempty"`               // block-*: otherwise released this long after the Catch began
}

type c15Popper struct {
	StartMs    int  `json:"start_ms"`
	GapMs      int  `json:"gap_ms"`
	HoldMs     int  `json:"hold_ms"`
	Pops       int  `json:"pops"`
	CloseAfter bool `json:"close_after_hold"`
}

type c15Close struct {
	AtMs  int    `json:"at_ms"`
	Which string `json:"which"` // random-live | unpopped | all-live | oldest-live
}

type c15End struct {
	AtMs       int    `json:"at_ms"`
	AtHandover int    `json:"at_handover"` // >=0: End is placed between the Catch and the hand-over of that successful Catch (hooks)
	Mode       string `json:"mode"`        // once | twice-seq | thrice-seq | twice-conc
	GapMs      int    `json:"gap_ms"`
}

type c15Script struct {
	Case            string      `json:"case"`
	Kind            string      `json:"kind"`
	Max             int         `json:"max"`
	Steps           []c15Step   `json:"catch_steps,omitempty"` // explicit steps for the first Catch calls
	PrngSteps       bool        `json:"later_steps_from_prng"` // further Catch calls: PRNG(case, call index); else "ok"
	CollectorWaitMs []int       `json:"collector_wait_ms,omitempty"`
	RealLoop        bool        `json:"real_connect_loop,omitempty"`
	Poppers         []c15Popper `json:"poppers,omitempty"`
	Closes          []c15Close  `json:"self_closes,omitempty"`
	End             c15End      `json:"end"`
	HandoverDelayMs int         `json:"handover_delay_ms,omitempty"`
	Steps2          string      `json:"sequence,omitempty"` // deterministic scenarios: the exact sequence in words
}

func c15GenStep(r *vlib.Rand) c15Step {
	x := r.Intn(100)
	switch {
	case x < 58:
		return c15Step{Kind: "ok", DelayMs: r.PickInt([]int{0, 0, 1, 3, 8, 20})}
	case x < 66:
		return c15Step{Kind: "err-timeout", DelayMs: r.Intn(16)}
	case x < 74:
		return c15Step{Kind: "err-broker", DelayMs: r.Intn(6)}
	case x < 82:
		return c15Step{Kind: "err-ice"}
	case x < 92:
		return c15Step{Kind: "block-ok", UntilEnd: r.Bool(), ReleaseMs: r.Range(5, 120)}
	}
	return c15Step{Kind: "block-err", UntilEnd: r.Bool(), ReleaseMs: r.Range(5, 120)}
}

func c15GenScript(r *vlib.Rand, i int) *c15Script {
	sc := &c15Script{Case: fmt.Sprintf("prng/%d", i), Kind: "prng", Max: 1 + i%5, PrngSteps: true}
	nc := r.PickInt([]int{1, 1, 1, 2, 3})
	for k := 0; k < nc; k++ {
		sc.CollectorWaitMs = append(sc.CollectorWaitMs, r.PickInt([]int{1, 2, 5, 10, 25}))
	}
	np := r.PickInt([]int{0, 1, 1, 1, 2})
	for k := 0; k < np; k++ {
		sc.Poppers = append(sc.Poppers, c15Popper{
			StartMs: r.Intn(150), GapMs: r.PickInt([]int{0, 1, 5, 30, 80}), HoldMs: r.PickInt([]int{0, 5, 20, 60, 400}),
			Pops: r.Range(1, 8), CloseAfter: r.Chance(3, 4),
		})
	}
	ncl := r.Range(0, 12)
	for k := 0; k < ncl; k++ {
		sc.Closes = append(sc.Closes, c15Close{AtMs: r.Intn(400), Which: r.PickString([]string{"random-live", "random-live", "unpopped", "all-live", "oldest-live"})})
	}
	// sorted by time (insertion sort; small)
	for a := 1; a < len(sc.Closes); a++ {
		for b := a; b > 0 && sc.Closes[b].AtMs < sc.Closes[b-1].AtMs; b-- {
			sc.Closes[b], sc.Closes[b-1] = sc.Closes[b-1], sc.Closes[b]
		}
	}
	sc.End = c15End{AtMs: r.Range(20, 450), AtHandover: -1, Mode: r.PickString([]string{"once", "once", "twice-seq", "twice-seq", "thrice-seq", "twice-conc"}), GapMs: r.PickInt([]int{0, 0, 1, 10, 50})}
	if r.Chance(1, 3) {
		sc.End.AtHandover = r.Range(0, 6)
	}
	sc.HandoverDelayMs = r.PickInt([]int{0, 0, 0, 1, 3})
	return sc
}

// ---- hook dispatch (the hook table is process-global: dispatch on *Peers) -------

var c15Worlds = struct {
	sync.RWMutex
	m map[*Peers]*c15World
}{m: map[*Peers]*c15World{}}

func c15WorldOf(args []interface{}) *c15World {
	if len(args) == 0 {
		return nil
	}
	p, _ := args[0].(*Peers)
	c15Worlds.RLock()
	w := c15Worlds.m[p]
	c15Worlds.RUnlock()
	return w
}

func c15InstallPeersHooks() {
	verifhook.Set(c15HookHandover, func(args ...interface{}) {
		if w := c15WorldOf(args); w != nil {
			w.onHandover()
		}
	})
	verifhook.Set(c15HookAfterMelt, func(args ...interface{}) {
		if w := c15WorldOf(args); w != nil {
			w.onAfterMelt()
		}
	})
}

// ---- the world -------------------------------------------------------------------

type c15Peer struct {
	id        int
	p         *WebRTCPeer
	closedSeq int64 // 0: closing not recorded
	closedBy  string
	popped    bool
}

type c15World struct {
	res *vlib.Result
	sc  *c15Script
	rnd *vlib.Rand
	P   *Peers
	t0  time.Time

	mu            sync.Mutex
	seq           int64
	peers         []*c15Peer
	byPtr         map[*WebRTCPeer]*c15Peer
	catchCalls    int
	inCatch       int
	okCatches     int
	handovers     int
	endIssued     int
	endReturned   int
	endAllSeq     int64 // !=0: every End that will be issued has returned
	postEndColl   int   // Collect calls of the real connectLoop begun after endAllSeq
	events        []string
	collectorGIDs []string
	endGIDs       []string
	rescued       bool
	steered       bool // End was placed between a Catch and its hand-over
	endWaited     bool // an End call was issued while a Catch was in flight
	liveAtEnd     int
	sigs          map[string]bool

	endCalled     chan struct{}
	endCalledOnce sync.Once
	endNow        chan struct{}
	endNowOnce    sync.Once
	afterMelt     chan struct{}
	afterMeltOnce sync.Once
	teardown      chan struct{}
	endersDone    chan struct{}
	loopDone      chan struct{}
	wg            sync.WaitGroup
}

func c15NewWorld(res *vlib.Result, sc *c15Script, rnd *vlib.Rand) *c15World {
	w := &c15World{res: res, sc: sc, rnd: rnd, t0: time.Now(), byPtr: map[*WebRTCPeer]*c15Peer{}, sigs: map[string]bool{},
		endCalled: make(chan struct{}), endNow: make(chan struct{}), afterMelt: make(chan struct{}),
		teardown: make(chan struct{}), endersDone: make(chan struct{})}
	p, err := NewPeers(&c15Tongue{w: w})
	if err != nil {
		panic(err)
	}
	w.P = p
	c15Worlds.Lock()
	c15Worlds.m[p] = w
	c15Worlds.Unlock()
	return w
}

func (w *c15World) unregister() {
	c15Worlds.Lock()
	delete(c15Worlds.m, w.P)
	c15Worlds.Unlock()
}

func (w *c15World) ms() int64 { return int64(time.Since(w.t0) / time.Millisecond) }

// ev records an event; caller holds w.mu. Returns the event's sequence number.
func (w *c15World) ev(format string, a ...interface{}) int64 {
	w.seq++
	if len(w.events) < 400 {
		w.events = append(w.events, fmt.Sprintf("#%d t=%dms %s", w.seq, w.ms(), fmt.Sprintf(format, a...)))
	}
	return w.seq
}

func (w *c15World) liveLocked() int {
	n := 0
	for _, fp := range w.peers {
		if !fp.p.Closed() {
			n++
		}
	}
	return n
}

func (w *c15World) rec() map[string]interface{} {
	w.mu.Lock()
	defer w.mu.Unlock()
	ev := w.events
	if len(ev) > 160 {
		ev = append(append([]string{}, ev[:40]...), append([]string{"…"}, ev[len(ev)-119:]...)...)
	} else {
		ev = append([]string{}, ev...)
	}
	var ps []string
	for _, fp := range w.peers {
		if len(ps) >= 60 {
			break
		}
		ps = append(ps, fmt.Sprintf("peer%d closed=%v recorded_closed_at=#%d by=%s popped=%v", fp.id, fp.p.Closed(), fp.closedSeq, fp.closedBy, fp.popped))
	}
	return map[string]interface{}{
		"case": w.sc.Case, "script": w.sc, "events": ev, "peers": ps,
		"handover_channel_len": len(w.P.snowflakeChan), "handover_channel_cap": cap(w.P.snowflakeChan),
	}
}

func (w *c15World) violate(sig, msg string) {
	w.mu.Lock()
	dup := w.sigs[sig]
	w.sigs[sig] = true
	w.mu.Unlock()
	if dup {
		return
	}
	w.res.Violate(sig, w.sc.Case+": "+msg, w.rec())
}

// ---- the scripted Tongue ---------------------------------------------------------

type c15Tongue struct{ w *c15World }

func (t *c15Tongue) GetMax() int { return t.w.sc.Max }

func (w *c15World) stepFor(idx int) c15Step {
	if idx < len(w.sc.Steps) {
		return w.sc.Steps[idx]
	}
	if w.sc.PrngSteps {
		return c15GenStep(w.rnd.SplitN("catch", idx))
	}
	return c15Step{Kind: "ok"}
}

var (
	c15ErrTimeout = errors.New("timeout waiting for DataChannel.OnOpen")
	c15ErrBroker  = errors.New(brokerErrorUnexpected)
	c15ErrICE     = errors.New("NewPeerConnection: scripted ICE failure")
)

func (t *c15Tongue) Catch() (*WebRTCPeer, error) {
	w := t.w
	w.mu.Lock()
	idx := w.catchCalls
	w.catchCalls++
	w.inCatch++
	step := w.stepFor(idx)
	live := w.liveLocked()
	afterEnd := w.endAllSeq != 0
	w.ev("catch %d begins (live=%d, step=%s)", idx, live, step.Kind)
	w.mu.Unlock()
	w.res.Obs("catch_calls", 1)
	w.res.Obs("capacity_checks", 1)
	if live > w.sc.Max {
		w.violate("c15:over-capacity", fmt.Sprintf("Catch %d begins while %d peers are live (max %d)", idx, live, w.sc.Max))
	}
	if live == w.sc.Max-1 {
		w.res.Obs("catch_begun_with_one_free_slot", 1)
	}
	if afterEnd {
		w.violate("c15:catch-after-end", fmt.Sprintf("Catch %d begins after every End call returned", idx))
	}
	c15Sleep(step.DelayMs)
	if strings.HasPrefix(step.Kind, "block-") {
		w.res.Obs("catch_blocked", 1)
		if step.UntilEnd {
			select {
			case <-w.endCalled:
				w.res.Obs("catch_released_after_end_called", 1)
			case <-w.teardown:
			}
		}
		select {
		case <-time.After(time.Duration(step.ReleaseMs) * time.Millisecond):
		case <-w.teardown:
		}
	}
	var err error
	switch step.Kind {
	case "err-timeout":
		err = c15ErrTimeout
	case "err-broker", "block-err":
		err = c15ErrBroker
	case "err-ice":
		err = c15ErrICE
	}
	w.mu.Lock()
	w.inCatch--
	if err != nil {
		w.ev("catch %d returns error %q", idx, err.Error())
		w.mu.Unlock()
		w.res.Obs("catch_"+step.Kind, 1)
		return nil, err
	}
	fp := &c15Peer{id: len(w.peers), p: &WebRTCPeer{closed: make(chan struct{})}}
	w.peers = append(w.peers, fp)
	w.byPtr[fp.p] = fp
	w.okCatches++
	live = w.liveLocked()
	w.ev("catch %d returns peer%d (live=%d)", idx, fp.id, live)
	w.mu.Unlock()
	w.res.Obs("catch_ok", 1)
	w.res.Obs("capacity_checks", 1)
	if live == w.sc.Max {
		w.res.Obs("catch_filled_last_slot", 1)
	}
	if live > w.sc.Max {
		w.violate("c15:over-capacity", fmt.Sprintf("after Catch %d returned peer%d there are %d live peers (max %d)", idx, fp.id, live, w.sc.Max))
	}
	return fp.p, nil
}

// ---- hooks -----------------------------------------------------------------------

func (w *c15World) onHandover() {
	w.mu.Lock()
	k := w.handovers
	w.handovers++
	trigger := w.sc.End.AtHandover == k
	if trigger {
		w.steered = true
		w.ev("hook: Catch returned, hand-over of catch-success %d not yet done: End is called now", k)
	}
	w.mu.Unlock()
	if trigger {
		w.endNowOnce.Do(func() { close(w.endNow) })
		// Wait until End is under way. The wait is the harness's own doing
		// (the collector is held here with collectLock taken), so it is
		// bounded: an End that needs the lock before it signals melt never
		// gets here while we wait. Then the collector is released and the
		// outcome is judged like any other.
		select {
		case <-w.endCalled:
		case <-time.After(5 * time.Second):
		case <-w.teardown:
		}
		select {
		case <-w.afterMelt: // End has closed melt and is about to take collectLock
			w.res.Obs("end_placed_between_catch_and_handover", 1)
			time.Sleep(2 * time.Millisecond) // let it park on the lock
		case <-time.After(1500 * time.Millisecond):
			select {
			case <-w.endCalled:
				w.res.Obs("end_called_at_handover_melt_not_signalled", 1)
				w.mu.Lock()
				w.ev("hook: End was called 1.5 s ago and has not signalled melt; the collector is released")
				w.mu.Unlock()
			default:
			}
		case <-w.teardown:
		}
		return
	}
	c15Sleep(w.sc.HandoverDelayMs)
}

func (w *c15World) onAfterMelt() {
	w.afterMeltOnce.Do(func() { close(w.afterMelt) })
}

// ---- primitives used by actors and scenarios -----------------------------------------

func (w *c15World) noteCollector() {
	id := c15GID()
	w.mu.Lock()
	w.collectorGIDs = append(w.collectorGIDs, id)
	w.mu.Unlock()
}

// collectOnce calls the real Collect. Monitor: an "At capacity" refusal
// although fewer than Max peers can have been live at any time since the call
// began (closings recorded before it began are visible to Count).
func (w *c15World) collectOnce(tag string) (*WebRTCPeer, error) {
	w.mu.Lock()
	begin := w.ev("%s: Collect begins", tag)
	w.mu.Unlock()
	var c *WebRTCPeer
	var err error
	if w.res.Guard("c15:panic:collect", w.recLater(), func() { c, err = w.P.Collect() }) {
		return nil, errors.New("panic")
	}
	w.mu.Lock()
	if err != nil {
		w.ev("%s: Collect returns error %q", tag, err.Error())
	} else {
		w.ev("%s: Collect returns a peer", tag)
	}
	refused := err != nil && strings.HasPrefix(err.Error(), "At capacity")
	upper := 0
	if refused {
		for _, fp := range w.peers {
			if fp.closedSeq == 0 || fp.closedSeq > begin {
				upper++
			}
		}
	}
	w.mu.Unlock()
	if refused {
		w.res.Obs("collect_refused_at_capacity", 1)
		if upper < w.sc.Max {
			w.violate("c15:collect-refused-below-capacity", fmt.Sprintf("Collect refused with %q although at most %d peers were live since the call began", err.Error(), upper))
		}
	}
	if err != nil && strings.Contains(err.Error(), "melted") {
		w.res.Obs("collect_refused_melted", 1)
	}
	return c, err
}

// recLater: a replay value that is built only when marshalled would be nicer;
// Guard needs it up front, so give it the cheap part and let violate() callers
// use rec(). (A panic inside Collect/Pop is not expected at all.)
func (w *c15World) recLater() map[string]interface{} {
	return map[string]interface{}{"case": w.sc.Case, "script": w.sc}
}

func (w *c15World) popOnce(tag string) (*WebRTCPeer, bool) {
	w.mu.Lock()
	begin := w.ev("%s: Pop begins", tag)
	w.mu.Unlock()
	var pr *WebRTCPeer
	if w.res.Guard("c15:panic:pop", w.recLater(), func() { pr = w.P.Pop() }) {
		return nil, false
	}
	w.res.Obs("pop_calls_returned", 1)
	if pr == nil {
		w.mu.Lock()
		w.ev("%s: Pop returns nil", tag)
		w.mu.Unlock()
		w.res.Obs("pop_nil", 1)
		return nil, true
	}
	w.mu.Lock()
	fp := w.byPtr[pr]
	bad := ""
	if fp == nil {
		bad = "Pop returned a peer the Tongue never created"
	} else {
		fp.popped = true
		w.ev("%s: Pop returns peer%d (recorded closed at #%d)", tag, fp.id, fp.closedSeq)
		if fp.closedSeq != 0 && fp.closedSeq < begin {
			bad = fmt.Sprintf("Pop (begun at #%d) returned peer%d whose closing (%s) had been recorded at #%d", begin, fp.id, fp.closedBy, fp.closedSeq)
		}
	}
	w.mu.Unlock()
	w.res.Obs("pop_peer", 1)
	if bad != "" {
		w.violate("c15:pop-returned-closed-peer", bad)
	}
	return pr, true
}

// closePeer: a peer closes "on its own" (staleness, remote close, data path
// done): closed and recorded in one critical section of the harness lock.
func (w *c15World) closePeer(fp *c15Peer, by string) {
	w.mu.Lock()
	if fp.closedSeq == 0 {
		was := fp.p.Closed()
		fp.p.Close()
		fp.closedBy = by
		if was {
			fp.closedBy = "End"
		}
		fp.closedSeq = w.ev("peer%d closed (%s, popped=%v)", fp.id, fp.closedBy, fp.popped)
		if !was {
			w.res.Obs("self_closes", 1)
			if !fp.popped {
				w.res.Obs("self_closes_of_unpopped_spares", 1)
			}
		}
	}
	w.mu.Unlock()
}

func (w *c15World) pick(which string, r *vlib.Rand) []*c15Peer {
	w.mu.Lock()
	defer w.mu.Unlock()
	var live []*c15Peer
	for _, fp := range w.peers {
		if fp.closedSeq == 0 && !fp.p.Closed() {
			live = append(live, fp)
		}
	}
	if len(live) == 0 {
		return nil
	}
	switch which {
	case "all-live":
		return live
	case "oldest-live":
		return live[:1]
	case "unpopped":
		var out []*c15Peer
		for _, fp := range live {
			if !fp.popped {
				out = append(out, fp)
			}
		}
		return out
	}
	return []*c15Peer{live[r.Intn(len(live))]}
}

func (w *c15World) callEnd() {
	id := c15GID()
	w.mu.Lock()
	n := w.endIssued
	w.endIssued++
	w.endGIDs = append(w.endGIDs, id)
	if w.inCatch > 0 {
		w.endWaited = true
	}
	if n == 0 {
		w.liveAtEnd = w.liveLocked()
	}
	w.ev("End call %d begins (catch in flight: %v)", n, w.inCatch > 0)
	w.mu.Unlock()
	w.endCalledOnce.Do(func() { close(w.endCalled) })
	w.res.Obs("end_calls", 1)
	if n > 0 {
		w.res.Obs("end_calls_repeated", 1)
	}
	var e interface{}
	func() {
		defer func() { e = recover() }()
		w.P.End()
	}()
	w.mu.Lock()
	w.endReturned++
	issued := w.endIssued
	if e != nil {
		w.ev("End call %d PANICS: %v", n, e)
	} else {
		w.ev("End call %d returns", n)
	}
	w.mu.Unlock()
	if e != nil {
		sig := "c15:panic:end"
		if issued > 1 {
			sig = "c15:panic:end-twice"
		}
		w.violate(sig, fmt.Sprintf("End call %d of %d panics: %v", n, issued, e))
	}
}

func (w *c15World) endSequence(mode string, gapMs int) {
	defer close(w.endersDone)
	switch mode {
	case "twice-seq":
		w.callEnd()
		c15Sleep(gapMs)
		w.callEnd()
	case "thrice-seq":
		w.callEnd()
		c15Sleep(gapMs)
		w.callEnd()
		w.callEnd()
	case "twice-conc":
		var g sync.WaitGroup
		g.Add(2)
		go func() { defer g.Done(); w.callEnd() }()
		go func() { defer g.Done(); c15Sleep(gapMs); w.callEnd() }()
		g.Wait()
	default:
		w.callEnd()
	}
}

// superviseEnd waits for the End sequence. If an End call has not returned
// although no Catch has been in flight for 2 s (all scripted delays are far
// below that), the state is judged from goroutine dumps.
func (w *c15World) superviseEnd() (ok bool) {
	var quiet time.Time
	start := time.Now()
	for {
		select {
		case <-w.endersDone:
			return true
		case <-time.After(20 * time.Millisecond):
		}
		select {
		case <-w.endCalled:
		default:
			if time.Since(start) > 60*time.Second {
				w.res.Inconcl(w.sc.Case + ": End was not called within 60 s")
				return false
			}
			continue
		}
		w.mu.Lock()
		busy := w.inCatch > 0
		w.mu.Unlock()
		if busy {
			quiet = time.Time{}
			if time.Since(start) > 90*time.Second {
				w.res.Inconcl(w.sc.Case + ": a scripted Catch is still in flight after 90 s")
				return false
			}
			continue
		}
		if quiet.IsZero() {
			quiet = time.Now()
		}
		if time.Since(quiet) > 2*time.Second {
			w.judgeStuck()
			return false
		}
	}
}

func (w *c15World) parked() (endParked, sendParked bool, excerpt string) {
	gs := vlib.ParseDump(vlib.DumpAll())
	w.mu.Lock()
	ends := append([]string{}, w.endGIDs...)
	colls := append([]string{}, w.collectorGIDs...)
	w.mu.Unlock()
	for _, id := range ends {
		if g := c15FindG(gs, id); g != nil && c15EndOnLock(g) {
			endParked = true
			excerpt += g.Raw + "\n"
			break
		}
	}
	for _, id := range colls {
		if g := c15FindG(gs, id); g != nil && c15CollectInHandover(g) {
			sendParked = true
			excerpt += g.Raw + "\n"
			break
		}
	}
	return
}

var c15DumpMu sync.Mutex

func (w *c15World) judgeStuck() {
	c15DumpMu.Lock()
	e1, s1, _ := w.parked()
	c15DumpMu.Unlock()
	time.Sleep(300 * time.Millisecond)
	select {
	case <-w.endersDone:
		return // it did return after all
	default:
	}
	c15DumpMu.Lock()
	e2, s2, excerpt := w.parked()
	c15DumpMu.Unlock()
	w.res.Obs("end_not_returning_judged", 1)
	if e1 && s1 && e2 && s2 {
		rec := w.rec()
		rec["goroutines"] = excerpt
		w.mu.Lock()
		dup := w.sigs["end-blocked"]
		w.sigs["end-blocked"] = true
		w.mu.Unlock()
		if !dup {
			w.res.Violate("c15:end-blocked:collect-handover-send-holds-lock",
				fmt.Sprintf("%s: End does not return although no Catch is in flight: End is parked on collectLock, held by a Collect parked in the hand-over to the channel (chan send / select without timer; hand-over channel %d/%d)",
					w.sc.Case, len(w.P.snowflakeChan), cap(w.P.snowflakeChan)), rec)
		}
	} else {
		w.res.Inconcl(fmt.Sprintf("%s: End has not returned 2 s after the last Catch ended, but the dumps do not show End on collectLock + Collect parked in its hand-over (end=%v/%v handover=%v/%v)", w.sc.Case, e1, e2, s1, s2))
	}
	// rescue: drain the hand-over channel so that the world can be torn down
	w.mu.Lock()
	w.rescued = true
	w.ev("harness drains the hand-over channel (rescue)")
	w.mu.Unlock()
	go func() {
		for {
			var pr *WebRTCPeer
			func() {
				defer func() { recover() }()
				pr = w.P.Pop()
			}()
			if pr == nil {
				return
			}
		}
	}()
	select {
	case <-w.endersDone:
	case <-time.After(20 * time.Second):
		w.res.Inconcl(w.sc.Case + ": End did not return even after the channel was drained")
	}
}

// afterEnd: every End that will be issued has returned.
func (w *c15World) afterEnd() {
	w.mu.Lock()
	w.endAllSeq = w.ev("every End call has returned")
	var open []string
	for _, fp := range w.peers {
		if fp.p.Closed() {
			if fp.closedSeq == 0 {
				fp.closedBy = "End"
				fp.closedSeq = w.ev("peer%d found closed after End", fp.id)
			}
		} else {
			open = append(open, fmt.Sprintf("peer%d", fp.id))
		}
	}
	created := len(w.peers)
	w.mu.Unlock()
	w.res.Obs("peers_checked_closed_after_end", int64(created))
	if len(open) > 0 {
		w.violate("c15:peer-not-closed-after-end", fmt.Sprintf("after End returned %d of %d created peers are not closed: %v", len(open), created, open))
	}
	// the data path asking again, and the collector trying again
	done := make(chan struct{})
	go func() {
		defer close(done)
		w.popOnce("post-end")
		w.noteCollector()
		w.collectOnce("post-end")
	}()
	select {
	case <-done:
		w.res.Obs("post_end_pop_and_collect", 1)
	case <-time.After(10 * time.Second):
		w.res.Inconcl(w.sc.Case + ": Pop/Collect after End did not return in 10 s")
	}
}

func (w *c15World) finish(nontrivial bool) {
	close(w.teardown)
	ch := make(chan struct{})
	go func() { w.wg.Wait(); close(ch) }()
	select {
	case <-ch:
	case <-time.After(15 * time.Second):
		w.res.Inconcl(w.sc.Case + ": collector/popper goroutines did not end within 15 s after End")
	}
	w.unregister()
	w.res.Eval(1)
	w.res.Obs("worlds", 1)
	w.res.Obs("worlds_"+w.sc.Kind, 1)
	w.mu.Lock()
	if w.steered {
		w.res.Obs("worlds_end_between_catch_and_handover", 1)
	}
	if w.endWaited {
		w.res.Obs("worlds_end_called_during_catch", 1)
	}
	if w.liveAtEnd > 0 {
		w.res.Obs("worlds_end_with_live_peers", 1)
	}
	nt := nontrivial || (w.okCatches > 0 && (w.liveAtEnd > 0 || w.endWaited || w.steered))
	w.mu.Unlock()
	if nt {
		w.res.Distinct(w.sc.Case)
	}
	w.res.Sample(3, map[string]interface{}{"case": w.sc.Case, "script": w.sc})
}

// ---- actors of the timeline worlds --------------------------------------------------

// collectorLoop is connectLoop with a scripted wait instead of ReconnectTimeout.
func (w *c15World) collectorLoop(i, waitMs int) {
	defer w.wg.Done()
	w.noteCollector()
	tag := fmt.Sprintf("collector%d", i)
	for {
		timer := time.After(time.Duration(waitMs) * time.Millisecond)
		w.collectOnce(tag)
		select {
		case <-timer:
			continue
		case <-w.P.Melted():
			return
		}
	}
}

func (w *c15World) popperLoop(i int, ps c15Popper) {
	defer w.wg.Done()
	tag := fmt.Sprintf("popper%d", i)
	select {
	case <-time.After(time.Duration(ps.StartMs) * time.Millisecond):
	case <-w.teardown:
		return
	}
	for n := 0; n < ps.Pops; n++ {
		pr, ok := w.popOnce(tag)
		if pr == nil || !ok {
			return
		}
		select {
		case <-time.After(time.Duration(ps.HoldMs) * time.Millisecond):
		case <-w.teardown:
			return
		}
		if ps.CloseAfter {
			w.mu.Lock()
			fp := w.byPtr[pr]
			w.mu.Unlock()
			if fp != nil {
				w.closePeer(fp, "data path done / remote close")
			}
		}
		select {
		case <-time.After(time.Duration(ps.GapMs) * time.Millisecond):
		case <-w.teardown:
			return
		}
	}
}

func (w *c15World) closerLoop() {
	defer w.wg.Done()
	r := w.rnd.Split("closer")
	for _, c := range w.sc.Closes {
		d := time.Duration(c.AtMs)*time.Millisecond - time.Since(w.t0)
		if d > 0 {
			select {
			case <-time.After(d):
			case <-w.teardown:
				return
			}
		}
		for _, fp := range w.pick(c.Which, r) {
			w.closePeer(fp, "stale/"+c.Which)
		}
	}
}

type c15Spy struct {
	*Peers
	w *c15World
}

func (s *c15Spy) Collect() (*WebRTCPeer, error) {
	w := s.w
	w.mu.Lock()
	if w.endAllSeq != 0 {
		w.postEndColl++
		w.ev("connectLoop calls Collect after every End returned (%d)", w.postEndColl)
	}
	w.mu.Unlock()
	w.res.Obs("real_connect_loop_collects", 1)
	return w.collectOnce("connectLoop")
}

func (w *c15World) startRealLoop() {
	w.loopDone = make(chan struct{})
	go func() {
		defer close(w.loopDone)
		w.noteCollector()
		connectLoop(&c15Spy{Peers: w.P, w: w})
	}()
}

// checkRealLoop: after End the real connectLoop must stop. Verdict by state:
// a loop that has called Collect twice after every End returned has passed its
// melt test at least once without leaving.
func (w *c15World) checkRealLoop() {
	if w.loopDone == nil {
		return
	}
	deadline := time.After(2*ReconnectTimeout + 6*time.Second)
	for {
		select {
		case <-w.loopDone:
			w.res.Obs("real_connect_loop_stopped_after_end", 1)
			return
		case <-deadline:
			w.res.Inconcl(w.sc.Case + ": connectLoop neither returned nor called Collect twice in 26 s after End")
			return
		case <-time.After(50 * time.Millisecond):
		}
		w.mu.Lock()
		n := w.postEndColl
		w.mu.Unlock()
		if n >= 2 {
			w.violate("c15:connect-loop-survives-end", fmt.Sprintf("connectLoop is still running after End: it has called Collect %d times since every End returned", n))
			return
		}
	}
}

// runTimeline runs a script whose actors are driven by time.
func c15RunTimeline(res *vlib.Result, sc *c15Script, rnd *vlib.Rand) {
	w := c15NewWorld(res, sc, rnd)
	for i, ms := range sc.CollectorWaitMs {
		w.wg.Add(1)
		go w.collectorLoop(i, ms)
	}
	if sc.RealLoop {
		w.startRealLoop()
	}
	for i, ps := range sc.Poppers {
		w.wg.Add(1)
		go w.popperLoop(i, ps)
	}
	w.wg.Add(1)
	go w.closerLoop()
	go func() {
		fallback := time.Duration(sc.End.AtMs) * time.Millisecond
		if sc.End.AtHandover >= 0 {
			fallback *= 3
		}
		select {
		case <-time.After(fallback):
		case <-w.endNow:
		}
		w.endSequence(sc.End.Mode, sc.End.GapMs)
	}()
	if w.superviseEnd() {
		w.afterEnd()
		w.checkRealLoop()
	}
	w.finish(false)
}

// ---- deterministic scenarios ----------------------------------------------------------

func (w *c15World) endNowAndCheck(mode string, gap int) bool {
	go w.endSequence(mode, gap)
	if w.superviseEnd() {
		w.afterEnd()
		return true
	}
	return false
}

// collectBounded runs one Collect in its own goroutine (a Collect may park in
// the hand-over send: the scenario must go on to its End phase, whose judge
// decides about that state). Reports whether it returned within d.
func (w *c15World) collectBounded(tag string, d time.Duration) (c *WebRTCPeer, err error, returned bool) {
	ch := make(chan struct{})
	w.wg.Add(1)
	go func() {
		defer w.wg.Done()
		defer close(ch)
		w.noteCollector()
		c, err = w.collectOnce(tag)
	}()
	select {
	case <-ch:
		return c, err, true
	case <-time.After(d):
		return nil, nil, false
	}
}

// mustCollect: a Collect that is expected to deliver a peer (scenario set-up).
func (w *c15World) mustCollect(tag string) *c15Peer {
	c, err, returned := w.collectBounded(tag, 5*time.Second)
	if !returned || err != nil || c == nil {
		w.res.Inconcl(fmt.Sprintf("%s: set-up Collect failed (returned=%v): %v", w.sc.Case, returned, err))
		return nil
	}
	w.mu.Lock()
	defer w.mu.Unlock()
	return w.byPtr[c]
}

// D10 — stale spares. The exact blocking sequence, from the code:
//  1. the hand-over channel has capacity Max; Collect appends to it, only Pop removes;
//  2. a queued peer that closes (staleness: 20 s without traffic) is purged from
//     activePeers by the next Count() but STAYS in the channel;
//  3. so after Max peers were queued-and-closed without a Pop in between, Count()
//     says 0 (or 1 with a peer in use), Collect catches another peer and parks in
//     `p.snowflakeChan <- connection` holding collectLock;
//  4. End closes melt and parks on collectLock: it returns only if somebody pops.
// inUse: the data path holds one live popped peer (the realistic variant: Pop is
// not called again while that peer works); needs Max >= 2.
func c15ScenarioStaleSpares(res *vlib.Result, max int, inUse bool, endMode string) {
	name := fmt.Sprintf("stale-spares/in-use=%v/max=%d/end=%s", inUse, max, endMode)
	sc := &c15Script{Case: name, Kind: "stale-spares", Max: max, End: c15End{AtHandover: -1, Mode: endMode},
		Steps2: "[in-use: Collect, Pop, keep live;] Max x (Collect a spare, nobody pops it, it closes on its own); Collect again (Catch succeeds); End"}
	w := c15NewWorld(res, sc, vlib.NewRand(1))
	w.noteCollector()
	ok := true
	if inUse {
		if w.mustCollect("setup") == nil {
			ok = false
		} else if pr, _ := w.popOnce("data-path"); pr == nil {
			ok = false
		}
	}
	for i := 0; ok && i < max; i++ {
		fp := w.mustCollect("setup")
		if fp == nil {
			ok = false
			break
		}
		w.closePeer(fp, "stale spare")
	}
	if ok {
		// the collector's next round
		w.wg.Add(1)
		before := w.catchCount()
		go func() {
			defer w.wg.Done()
			w.noteCollector()
			w.collectOnce("collector")
		}()
		// wait until its Catch has returned (or the Collect was refused)
		c15WaitUntil(5*time.Second, func() bool { w.mu.Lock(); defer w.mu.Unlock(); return w.catchCalls > before && w.inCatch == 0 })
		time.Sleep(20 * time.Millisecond)
		res.Obs("stale_spare_scenarios", 1)
		w.endNowAndCheck(endMode, 1)
	}
	w.finish(ok)
}

func (w *c15World) catchCount() int { w.mu.Lock(); defer w.mu.Unlock(); return w.catchCalls }

// End placed exactly between Catch and hand-over, with `queued` live spares
// already waiting (queued < max) or with the channel full of stale spares.
func c15ScenarioEndInHandover(res *vlib.Result, max, queued int, staleFull bool, endMode string) {
	name := fmt.Sprintf("end-between-catch-and-handover/max=%d/queued=%d/stale-full=%v/end=%s", max, queued, staleFull, endMode)
	sc := &c15Script{Case: name, Kind: "end-in-handover", Max: max, End: c15End{AtHandover: queued, Mode: endMode},
		Steps2: "queue `queued` peers (stale-full: Max peers, each closing after it was queued); a collector's Catch returns; hook: End is called and closes melt before the hand-over continues"}
	if staleFull {
		sc.End.AtHandover = max
	}
	w := c15NewWorld(res, sc, vlib.NewRand(1))
	w.noteCollector()
	ok := true
	n := queued
	if staleFull {
		n = max
	}
	for i := 0; ok && i < n; i++ {
		fp := w.mustCollect("setup")
		if fp == nil {
			ok = false
			break
		}
		if staleFull {
			w.closePeer(fp, "stale spare")
		}
	}
	if ok {
		w.wg.Add(1)
		go func() {
			defer w.wg.Done()
			w.noteCollector()
			w.collectOnce("collector")
		}()
		select {
		case <-w.endNow:
		case <-time.After(10 * time.Second):
			res.Inconcl(name + ": hand-over hook not reached")
			ok = false
		}
		if ok {
			w.endNowAndCheck(endMode, 0)
		}
	}
	w.finish(ok)
}

// End while a Catch is blocked: End may wait for it (one rendezvous attempt in
// flight), must return once it is released, and must close the peer it yields.
func c15ScenarioEndDuringCatch(res *vlib.Result, max, queued int, yields string, endMode string) {
	name := fmt.Sprintf("end-during-blocked-catch/max=%d/queued=%d/catch-yields=%s/end=%s", max, queued, yields, endMode)
	sc := &c15Script{Case: name, Kind: "end-during-catch", Max: max, End: c15End{AtHandover: -1, Mode: endMode},
		Steps2: "queue `queued` peers; a collector's Catch blocks; End is called; 150 ms later the Catch is released"}
	for i := 0; i < queued; i++ {
		sc.Steps = append(sc.Steps, c15Step{Kind: "ok"})
	}
	sc.Steps = append(sc.Steps, c15Step{Kind: "block-" + yields, UntilEnd: true, ReleaseMs: 150})
	w := c15NewWorld(res, sc, vlib.NewRand(1))
	w.noteCollector()
	ok := true
	for i := 0; ok && i < queued; i++ {
		ok = w.mustCollect("setup") != nil
	}
	if ok {
		w.wg.Add(1)
		go func() {
			defer w.wg.Done()
			w.noteCollector()
			w.collectOnce("collector")
		}()
		ok = c15WaitUntil(5*time.Second, func() bool { w.mu.Lock(); defer w.mu.Unlock(); return w.inCatch > 0 })
		if ok {
			w.endNowAndCheck(endMode, 5)
		}
	}
	w.finish(ok)
}

// Pop must skip spares that closed while queued; capacity frees when a peer closes.
func c15ScenarioPopSkipsClosed(res *vlib.Result, max, closed int) {
	name := fmt.Sprintf("pop-skips-closed/max=%d/closed=%d", max, closed)
	sc := &c15Script{Case: name, Kind: "pop-skips-closed", Max: max, End: c15End{AtHandover: -1, Mode: "once"},
		Steps2: "queue Max peers; Collect (refused at capacity, no Catch); the first `closed` close; Pop; Collect (must catch again); End"}
	w := c15NewWorld(res, sc, vlib.NewRand(1))
	w.noteCollector()
	ok := true
	var fps []*c15Peer
	for i := 0; ok && i < max; i++ {
		fp := w.mustCollect("setup")
		ok = fp != nil
		fps = append(fps, fp)
	}
	if ok {
		w.collectBounded("at-capacity", 2*time.Second) // monitors in Catch: must not catch
		for i := 0; i < closed; i++ {
			w.closePeer(fps[i], "stale spare")
		}
		if closed < max {
			w.popOnce("data-path") // monitor: not a closed one
		}
		if closed > 0 {
			w.collectBounded("below-capacity", 500*time.Millisecond) // monitor: not refused; may park (D10) when closed == max
		}
		res.Obs("pop_skips_closed_scenarios", 1)
		w.endNowAndCheck("once", 0)
	}
	w.finish(ok)
}

// The real connectLoop (ReconnectTimeout = 10 s between Collects).
func c15ScenarioRealLoop(res *vlib.Result, max int, variant string) {
	name := fmt.Sprintf("real-connect-loop/max=%d/%s", max, variant)
	sc := &c15Script{Case: name, Kind: "real-connect-loop", Max: max, RealLoop: true, End: c15End{AtHandover: -1, Mode: "once"}}
	switch variant {
	case "end-between-rounds":
		sc.Steps2 = "connectLoop collects peer0 at t=0; popper takes it; End at t=1.5 s while the loop waits for its timer"
		sc.Poppers = []c15Popper{{StartMs: 100, HoldMs: 60000, Pops: 1}}
		sc.End.AtMs = 1500
	case "end-in-second-handover":
		sc.Steps2 = "connectLoop collects peer0 at t=0; a popper takes it; it closes at 3 s; second round at t=10 s: End placed between its Catch and hand-over"
		sc.Poppers = []c15Popper{{StartMs: 100, HoldMs: 60000, Pops: 1}}
		sc.Closes = []c15Close{{AtMs: 3000, Which: "all-live"}}
		sc.End.AtHandover = 1
		sc.End.AtMs = 5000 // fallback x3
		sc.End.Mode = "twice-seq"
	case "end-during-first-catch":
		sc.Steps2 = "connectLoop's first Catch blocks; End at 300 ms; Catch released 200 ms after End was called"
		sc.Steps = []c15Step{{Kind: "block-ok", UntilEnd: true, ReleaseMs: 200}}
		sc.End.AtMs = 300
	}
	c15RunTimeline(res, sc, vlib.NewRand(uint64(max)))
}

// ---- the test ---------------------------------------------------------------------------

func TestVerifC15Peers(t *testing.T) {
	res := vlib.NewResult("C15", "inpkg-clientlib-c15-peers", "Peers driven through a scripted Tongue (Max 1..5): deterministic scenarios (stale spares, End between Catch and hand-over via hooks, End during a blocked Catch, Pop over closed spares, the real connectLoop) and PRNG timelines of collectors, poppers, self-closing peers and End once/twice/thrice/concurrently; non-trivial = world with >=1 successful Catch whose End was called with live peers, during a Catch or between Catch and hand-over; distinct by script id")
	defer res.Finish()
	c15Quiet(res)
	c15InstallPeersHooks()
	root := vlib.NewRand(vlib.Seed()).Split("c15peers")
	shard, nshards := vlib.Shard()

	type job struct {
		kind string
		f    func()
	}
	var jobs []job
	kind := ""
	add := func(f func()) { jobs = append(jobs, job{kind, f}) }
	kind = "real-loop"
	for max := 1; max <= 2; max++ {
		max := max
		for _, v := range []string{"end-between-rounds", "end-in-second-handover", "end-during-first-catch"} {
			v := v
			add(func() { c15ScenarioRealLoop(res, max, v) })
		}
	}
	endModes := []string{"once", "twice-seq", "twice-conc"}
	for max := 1; max <= 5; max++ {
		max := max
		kind = "stale"
		for mi, em := range endModes {
			em := em
			if mi == 0 || max <= 2 {
				add(func() { c15ScenarioStaleSpares(res, max, false, em) })
			}
			if max >= 2 && (mi == 0 || max == 2) {
				add(func() { c15ScenarioStaleSpares(res, max, true, em) })
			}
		}
		kind = "steered"
		for q := 0; q < max; q++ {
			q := q
			em := endModes[(q+max)%3]
			add(func() { c15ScenarioEndInHandover(res, max, q, false, em) })
			add(func() { c15ScenarioEndDuringCatch(res, max, q, []string{"ok", "err"}[(q+max)%2], em) })
		}
		add(func() { c15ScenarioEndInHandover(res, max, 0, true, "once") })
		kind = "pop"
		for c := 0; c <= max; c++ {
			c := c
			add(func() { c15ScenarioPopSkipsClosed(res, max, c) })
		}
	}
	kind = "prng"
	nPrng := vlib.Scale(1500, 120000)
	for i := 0; i < nPrng; i++ {
		i := i
		add(func() {
			r := root.SplitN("world", i)
			c15RunTimeline(res, c15GenScript(r, i), r)
		})
	}

	// everything through a bounded pool; the long real-loop worlds start first
	sem := make(chan struct{}, 48)
	var wg sync.WaitGroup
	mine := map[string]int64{}
	for ji, jb := range jobs {
		if ji%nshards != shard {
			continue
		}
		mine[jb.kind]++
		mine["all"]++
		f := jb.f
		wg.Add(1)
		sem <- struct{}{}
		go func() {
			defer wg.Done()
			defer func() { <-sem }()
			f()
		}()
	}
	wg.Wait()
	res.Note("hook_hits", verifhook.AllHits())

	// coverage owed by this shard's share of the (seed, tier)-fixed job list
	res.RequireObs("worlds", mine["all"])
	res.RequireObs("stale_spare_scenarios", mine["stale"])
	res.RequireObs("pop_skips_closed_scenarios", mine["pop"])
	res.RequireObs("real_connect_loop_collects", mine["real-loop"])
	// steering: End was called while a collector was held between Catch and
	// hand-over. If violations were recorded the placement may legitimately
	// have been impossible (End not getting as far as melt is such a finding).
	if res.NViolations() == 0 {
		placed := res.GetObs("end_placed_between_catch_and_handover") + res.GetObs("end_called_at_handover_melt_not_signalled")
		res.Require(placed >= mine["steered"]/3, fmt.Sprintf("End placed between Catch and hand-over %d times < %d", placed, mine["steered"]/3))
	}
	res.RequireObs("catch_ok", 200)
	res.RequireObs("catch_blocked", 10)
	res.RequireObs("catch_err-timeout", 3)
	res.RequireObs("catch_err-broker", 3)
	res.RequireObs("catch_err-ice", 3)
	res.RequireObs("pop_peer", 50)
	res.RequireObs("pop_nil", 50)
	res.RequireObs("self_closes_of_unpopped_spares", 20)
	res.RequireObs("collect_refused_at_capacity", 20)
	res.RequireObs("catch_filled_last_slot", 20)
	res.RequireObs("end_calls_repeated", 20)
	res.RequireObs("worlds_end_called_during_catch", 5)
}
