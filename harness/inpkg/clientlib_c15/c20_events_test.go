// C20 workload (event dispatcher shared by the client transport and the
// proxy): the dialer's goroutines publish events while the embedding
// application adds and removes its listeners (Transport.AddSnowflakeEventListener
// / RemoveSnowflakeEventListener are exported for exactly that). The race
// detector is the oracle for the dispatcher's own state; in addition a
// listener that stays registered throughout must see every event exactly once.
package snowflake_client

import (
	"fmt"
	"io/ioutil"
	"log"
	"sync"
	"sync/atomic"
	"testing"

	"git.torproject.org/pluggable-transports/snowflake.git/v2/common/event"
	"verif/vlib"
)

type c20Receiver struct{ n int64 }

func (r *c20Receiver) OnNewSnowflakeEvent(e event.SnowflakeEvent) { atomic.AddInt64(&r.n, 1) }

func TestVerifC20EventListeners(t *testing.T) {
	res := vlib.NewResult("C20", "inpkg-clientlib-c20-events", "per round one client Transport: 4 goroutines publish events through its dispatcher (as the dialer does) while 2 goroutines add and remove listeners through the exported Transport methods and 2 listeners stay registered; the permanent listeners must have seen every event exactly once; distinct = one per round")
	defer res.Finish()
	log.SetOutput(ioutil.Discard)
	rounds := vlib.Scale(30, 300)
	for round := 0; round < rounds; round++ {
		tr, err := NewSnowflakeClient(ClientConfig{BrokerURL: "https://broker.example/", ICEAddresses: []string{"stun:127.0.0.1:3478"}, Max: 1})
		if err != nil {
			res.Inconcl("transport: " + err.Error())
			return
		}
		res.Eval(1)
		perm := []*c20Receiver{{}, {}}
		tr.AddSnowflakeEventListener(perm[0])
		churn := make([]*c20Receiver, 6)
		for i := range churn {
			churn[i] = &c20Receiver{}
			tr.AddSnowflakeEventListener(churn[i])
		}
		tr.AddSnowflakeEventListener(perm[1])
		var stop int32
		var published int64
		var wg, pwg sync.WaitGroup
		for k := 0; k < 4; k++ {
			pwg.Add(1)
			go func(k int) {
				defer pwg.Done()
				for i := 0; i < 3000; i++ {
					var e event.SnowflakeEvent
					switch (i + k) % 3 {
					case 0:
						e = event.EventOnOfferCreated{}
					case 1:
						e = event.EventOnBrokerRendezvous{}
					default:
						e = event.EventOnSnowflakeConnected{}
					}
					tr.eventDispatcher.OnNewSnowflakeEvent(e)
					atomic.AddInt64(&published, 1)
				}
			}(k)
		}
		for k := 0; k < 2; k++ {
			wg.Add(1)
			go func(k int) {
				defer wg.Done()
				for i := 0; atomic.LoadInt32(&stop) == 0; i++ {
					c := churn[(3*k+i)%len(churn)]
					tr.RemoveSnowflakeEventListener(c)
					tr.AddSnowflakeEventListener(c)
				}
			}(k)
		}
		pwg.Wait()
		atomic.StoreInt32(&stop, 1)
		wg.Wait()
		pub := atomic.LoadInt64(&published)
		res.Obs("events_published_during_listener_churn", pub)
		for i, p := range perm {
			if got := atomic.LoadInt64(&p.n); got != pub {
				res.Violatef("c20:event-delivery-to-permanent-listener", map[string]interface{}{"case": fmt.Sprintf("events/%d", round), "listener": i}, "a listener registered for the whole round saw %d deliveries of %d events published (other listeners were being added and removed meanwhile)", got, pub)
			}
		}
		res.Distinct(fmt.Sprintf("events/%d", round))
	}
	res.RequireObs("events_published_during_listener_churn", int64(rounds)*10000)
}
