// C15 part 2 — the real WebRTCDialer / NewWebRTCPeerWithEvents against a
// scripted RendezvousMethod and a list of ICE configurations.
//
// Every failed attempt to obtain a peer must come back to the caller of
// Catch()/NewWebRTCPeerWithEvents as an error: never a panic (a panic in
// connectLoop's goroutine terminates the client), never a "success", and it
// must not leave an un-closed PeerConnection behind (goroutines with pion
// frames at quiescence must not grow with the number of failed attempts:
// N attempts vs. 4N attempts).
package snowflake_client

import (
	"errors"
	"fmt"
	"net"
	"net/http"
	"net/http/httptest"
	"runtime"
	"sort"
	"strings"
	"sync"
	"sync/atomic"
	"testing"
	"time"

	"git.torproject.org/pluggable-transports/snowflake.git/v2/common/event"
	"git.torproject.org/pluggable-transports/snowflake.git/v2/common/messages"
	"git.torproject.org/pluggable-transports/snowflake.git/v2/common/nat"
	"git.torproject.org/pluggable-transports/snowflake.git/v2/common/util"
	"github.com/pion/ice/v2"
	"github.com/pion/stun"
	"github.com/pion/webrtc/v3"
	"verif/vlib"
)

// ---- a small STUN responder (Binding -> XOR-MAPPED-ADDRESS) -------------------------

type c15STUN struct {
	pc       net.PacketConn
	requests int64
}

func c15StartSTUN() (*c15STUN, error) {
	pc, err := net.ListenPacket("udp4", "127.0.0.1:0")
	if err != nil {
		return nil, err
	}
	s := &c15STUN{pc: pc}
	go func() {
		buf := make([]byte, 1500)
		for {
			n, from, err := pc.ReadFrom(buf)
			if err != nil {
				return
			}
			m := &stun.Message{Raw: append([]byte{}, buf[:n]...)}
			if m.Decode() != nil || m.Type != stun.BindingRequest {
				continue
			}
			ua, ok := from.(*net.UDPAddr)
			if !ok {
				continue
			}
			resp, err := stun.Build(stun.NewTransactionIDSetter(m.TransactionID), stun.BindingSuccess,
				&stun.XORMappedAddress{IP: ua.IP, Port: ua.Port}, stun.Fingerprint)
			if err != nil {
				continue
			}
			atomic.AddInt64(&s.requests, 1)
			pc.WriteTo(resp.Raw, from)
		}
	}()
	return s, nil
}

func (s *c15STUN) port() int { return s.pc.LocalAddr().(*net.UDPAddr).Port }

// c15DeadUDPPort: a local UDP port with nothing behind it.
func c15DeadUDPPort() int {
	pc, err := net.ListenPacket("udp4", "127.0.0.1:0")
	if err != nil {
		return 9
	}
	p := pc.LocalAddr().(*net.UDPAddr).Port
	pc.Close()
	return p
}

// ---- the far side: a pion answerer standing in for a proxy --------------------------------

type c15Answerer struct {
	mu   sync.Mutex
	pcs  []*webrtc.PeerConnection
	msgs int64 // data channel messages received from the client
}

// answer builds a genuine SDP answer to the client's offer. keep=false closes
// the answering PeerConnection at once: the answer is valid but nobody is
// there, so the client's data channel never opens.
func (a *c15Answerer) answer(offer *webrtc.SessionDescription, keep bool) (string, error) {
	s := webrtc.SettingEngine{}
	s.SetICEMulticastDNSMode(ice.MulticastDNSModeDisabled)
	api := webrtc.NewAPI(webrtc.WithSettingEngine(s))
	pc, err := api.NewPeerConnection(webrtc.Configuration{})
	if err != nil {
		return "", err
	}
	pc.OnDataChannel(func(dc *webrtc.DataChannel) {
		dc.OnMessage(func(webrtc.DataChannelMessage) { atomic.AddInt64(&a.msgs, 1) })
	})
	fail := func(err error) (string, error) { pc.Close(); return "", err }
	if err = pc.SetRemoteDescription(*offer); err != nil {
		return fail(err)
	}
	ans, err := pc.CreateAnswer(nil)
	if err != nil {
		return fail(err)
	}
	done := webrtc.GatheringCompletePromise(pc)
	if err = pc.SetLocalDescription(ans); err != nil {
		return fail(err)
	}
	select {
	case <-done:
	case <-time.After(20 * time.Second):
		return fail(errors.New("answerer: gathering did not complete"))
	}
	out, err := util.SerializeSessionDescription(pc.LocalDescription())
	if err != nil {
		return fail(err)
	}
	if keep {
		a.mu.Lock()
		a.pcs = append(a.pcs, pc)
		a.mu.Unlock()
	} else {
		pc.Close()
	}
	return out, nil
}

func (a *c15Answerer) closeAll() {
	a.mu.Lock()
	pcs := a.pcs
	a.pcs = nil
	a.mu.Unlock()
	for _, pc := range pcs {
		pc.Close()
	}
}

// ---- the scripted rendezvous ------------------------------------------------------------------

type c15Rendezvous struct {
	outcome  string
	ans      *c15Answerer
	calls    int64
	badReq   int64
	hold     chan struct{} // non-nil: Exchange blocks until closed (part 3)
	inFlight int64
	began    func() // called when an Exchange begins (part 3)
}

var c15Outcomes = []string{
	"transport-error", "non-200", "empty-body", "malformed-json", "empty-object", "error-member",
	"answer-not-json", "answer-without-sdp", "garbage-sdp", "answer-type-not-string", "answer-sdp-not-string",
	"never-connects", "connects",
}

func (r *c15Rendezvous) Exchange(enc []byte) ([]byte, error) {
	atomic.AddInt64(&r.calls, 1)
	atomic.AddInt64(&r.inFlight, 1)
	defer atomic.AddInt64(&r.inFlight, -1)
	if r.began != nil {
		r.began()
	}
	if r.hold != nil {
		<-r.hold
	}
	req, err := messages.DecodeClientPollRequest(enc)
	if err != nil {
		atomic.AddInt64(&r.badReq, 1)
	}
	wrap := func(answer string) ([]byte, error) {
		resp := &messages.ClientPollResponse{Answer: answer}
		return resp.EncodePollResponse()
	}
	switch r.outcome {
	case "transport-error":
		return nil, &net.OpError{Op: "dial", Net: "tcp", Err: errors.New("connect: connection refused")}
	case "non-200":
		return nil, errors.New(brokerErrorUnexpected)
	case "empty-body":
		return []byte{}, nil
	case "malformed-json":
		return []byte(`{"answer": "{\"type\":\"answer\",`), nil
	case "empty-object":
		return []byte(`{}`), nil
	case "error-member":
		return []byte(`{"error":"no snowflake proxies currently available"}`), nil
	case "answer-not-json":
		return wrap("v=0 this is not JSON")
	case "answer-without-sdp":
		return wrap(`{"type":"answer"}`)
	case "garbage-sdp":
		return wrap(`{"type":"answer","sdp":"\u0000garbage\r\nm=application 9 nonsense\r\n"}`)
	case "answer-type-not-string":
		return wrap(`{"type":1,"sdp":"v=0\r\n"}`)
	case "answer-sdp-not-string":
		return wrap(`{"type":"answer","sdp":{"v":0}}`)
	case "never-connects", "connects":
		if req == nil {
			return nil, errors.New("harness: offer not decodable")
		}
		offer, err := util.DeserializeSessionDescription(req.Offer)
		if err != nil {
			atomic.AddInt64(&r.badReq, 1)
			return nil, errors.New("harness: offer not decodable")
		}
		a, err := r.ans.answer(offer, r.outcome == "connects")
		if err != nil {
			return nil, errors.New("harness: answerer failed: " + err.Error())
		}
		return wrap(a)
	}
	return nil, errors.New("harness: unknown outcome")
}

// ---- events as evidence -------------------------------------------------------------------------

type c15Events struct {
	mu sync.Mutex
	n  map[string]int
}

func (e *c15Events) OnNewSnowflakeEvent(ev event.SnowflakeEvent) {
	name := strings.TrimPrefix(fmt.Sprintf("%T", ev), "event.")
	failed := false
	switch x := ev.(type) {
	case event.EventOnOfferCreated:
		failed = x.Error != nil
	case event.EventOnBrokerRendezvous:
		failed = x.Error != nil
	}
	if failed {
		name += "(error)"
	}
	_ = ev.String() // the String methods must cope with what connect puts in
	e.mu.Lock()
	e.n[name]++
	e.mu.Unlock()
}

// ---- ICE configurations ------------------------------------------------------------------------------

type c15ICE struct {
	Class string   `json:"ice_class"`
	Addrs []string `json:"ice_addresses"` // as given to ClientConfig.ICEAddresses / -ice
	Valid bool     `json:"harness_expects_usable"`
}

func c15ICEList(stunPort, deadPort int) []c15ICE {
	live := fmt.Sprintf("stun:127.0.0.1:%d", stunPort)
	dead := fmt.Sprintf("stun:127.0.0.1:%d", deadPort)
	return []c15ICE{
		{Class: "none", Addrs: nil, Valid: true},
		{Class: "stun-live", Addrs: []string{live}, Valid: true},
		{Class: "stun-dead", Addrs: []string{dead}, Valid: true},
		{Class: "empty-url", Addrs: []string{""}},                           // what `-ice ""` (the default) parses to
		{Class: "garbage", Addrs: []string{"%%%not a url \x7f"}},
		{Class: "unsupported-scheme", Addrs: []string{"http://127.0.0.1:3478"}},
		{Class: "turn-without-credentials", Addrs: []string{"turn:127.0.0.1:3478"}},
		{Class: "stun-without-host", Addrs: []string{"stun:"}},
		{Class: "valid-plus-empty", Addrs: []string{live, ""}},              // `-ice stun:…,` (trailing comma)
	}
}

// ---- one attempt ---------------------------------------------------------------------------------------

type c15Attempt struct {
	Case    string `json:"case"`
	ICE     c15ICE `json:"ice"`
	Outcome string `json:"rendezvous_outcome"`
	API     string `json:"api"`
	KeepLA  bool   `json:"keep_local_addresses"`
}

func c15PanicSig(stack string, at c15Attempt) string {
	switch {
	case strings.Contains(stack, "(*PeerConnection).LocalDescription") || strings.Contains(stack, "(*PeerConnection).PendingLocalDescription"):
		return "c15:panic:connect-nil-peerconnection:" + at.ICE.Class
	case strings.Contains(stack, "DeserializeSessionDescription"):
		return "c15:panic:negotiate-answer-member-not-a-string:" + at.Outcome
	}
	return "c15:panic:catch:" + at.ICE.Class + ":" + at.Outcome
}

// c15TryCatch makes one attempt through one of the exported entry points.
func c15TryCatch(res *vlib.Result, at c15Attempt, rv RendezvousMethod, evs *c15Events) (peer *WebRTCPeer, err error, panicked bool) {
	broker := &BrokerChannel{Rendezvous: rv, keepLocalAddresses: at.KeepLA, natType: nat.NATUnknown}
	servers := parseIceServers(at.ICE.Addrs)
	defer func() {
		if e := recover(); e != nil {
			panicked = true
			b := make([]byte, 16384)
			stack := string(b[:runtime.Stack(b, false)])
			res.Violate(c15PanicSig(stack, at), fmt.Sprintf("%s: panic instead of an error: %v\n%s", at.Case, e, stack), at)
		}
	}()
	switch at.API {
	case "NewWebRTCDialerWithEvents.Catch":
		peer, err = NewWebRTCDialerWithEvents(broker, servers, 1, evs).Catch()
	case "NewWebRTCDialer.Catch":
		peer, err = NewWebRTCDialer(broker, servers, 1).Catch()
	default:
		cfg := webrtc.Configuration{ICEServers: servers}
		peer, err = NewWebRTCPeerWithEvents(&cfg, broker, evs)
	}
	return
}

var c15APIs = []string{"NewWebRTCDialerWithEvents.Catch", "NewWebRTCPeerWithEvents", "NewWebRTCDialer.Catch"}

// c15Pair: one (ICE class, outcome): N attempts, quiescence, 3N more.
type c15Pair struct {
	ice     c15ICE
	outcome string
	cost    int
}

func c15RunPair(res *vlib.Result, pr c15Pair, idx int, evs *c15Events, httpURL map[string]string) {
	name := fmt.Sprintf("dialer/%s/%s", pr.ice.Class, pr.outcome)
	N := vlib.Scale(2, 4)
	ans := &c15Answerer{}
	var rv RendezvousMethod
	fake := &c15Rendezvous{outcome: pr.outcome, ans: ans}
	rv = fake
	if u, ok := httpURL[pr.outcome]; ok {
		h, err := newHTTPRendezvous(u, "", createBrokerTransport())
		if err != nil {
			res.Inconcl(name + ": newHTTPRendezvous: " + err.Error())
			return
		}
		rv = h
	}
	base, _ := c15PionQuiesce(500*time.Millisecond, 10*time.Second)
	counts := []int{base}
	errs := map[string]int{}
	var emu sync.Mutex
	attempt := 0
	anyPanic := false
	for phase, n := range []int{N, 3 * N} {
		var wg sync.WaitGroup
		var held []*WebRTCPeer
		for k := 0; k < n; k++ {
			at := c15Attempt{Case: fmt.Sprintf("%s/%d", name, attempt), ICE: pr.ice, Outcome: pr.outcome,
				API: c15APIs[(attempt+idx)%len(c15APIs)], KeepLA: attempt%2 == 0}
			attempt++
			res.CaseLog(at.Case)
			wg.Add(1)
			go func() {
				defer wg.Done()
				peer, err, panicked := c15TryCatch(res, at, rv, evs)
				res.Eval(1)
				emu.Lock()
				defer emu.Unlock()
				switch {
				case panicked:
					anyPanic = true
					res.Obs("attempts_panicked", 1)
				case pr.outcome == "connects" && pr.ice.Valid:
					if err != nil || peer == nil {
						res.Inconcl(fmt.Sprintf("%s: positive control did not connect: %v", at.Case, err))
					} else {
						res.Obs("positive_control_connected", 1)
						held = append(held, peer)
					}
				case err == nil || peer != nil:
					res.Violate("c15:failed-attempt-not-reported:"+pr.outcome, fmt.Sprintf("%s: Catch returned (peer=%v, err=%v) although the attempt cannot have succeeded", at.Case, peer != nil, err), at)
					if peer != nil {
						held = append(held, peer)
					}
				default:
					res.Obs("attempts_returned_error", 1)
					e := err.Error()
					if len(e) > 70 {
						e = e[:70]
					}
					errs[e]++
				}
			}()
		}
		wg.Wait()
		// positive control: a connected peer that is closed leaves nothing either
		for _, p := range held {
			p.Close()
		}
		ans.closeAll()
		c, by := c15PionQuiesce(700*time.Millisecond, 20*time.Second)
		counts = append(counts, c)
		if phase == 1 {
			g1, g2 := counts[1]-counts[0], counts[2]-counts[0]
			if !anyPanic && g1 >= N && g2 >= 4*N && g2 > g1 {
				// suspected: give a slow teardown every chance before judging
				time.Sleep(4 * time.Second)
				c, by = c15PionQuiesce(2*time.Second, 20*time.Second)
				counts[2] = c
				g2 = c - counts[0]
			}
			rec := map[string]interface{}{"case": name, "ice": pr.ice, "rendezvous_outcome": pr.outcome, "attempts": []int{N, 4 * N},
				"pion_goroutines": map[string]int{"before": counts[0], "after_N": counts[1], "after_4N": counts[2]}, "pion_goroutines_left": by, "errors_returned": errs}
			res.Obs("leak_checks", 1)
			if !anyPanic && g1 >= N && g2 >= 4*N && g2 > g1 {
				res.Violate("c15:peerconnection-leak:"+pr.outcome, fmt.Sprintf("%s: goroutines with pion frames at quiescence grow with the failed attempts: %d before, %d after %d attempts, %d after %d", name, counts[0], counts[1], N, counts[2], 4*N), rec)
			} else if g2 > 0 {
				res.Obs("pairs_with_constant_pion_residue", 1)
			}
			res.Sample(4, rec)
		}
	}
	if !anyPanic {
		res.Distinct(name)
	}
	res.Obs("pairs", 1)
	res.Obs("pairs_ice_"+pr.ice.Class, 1)
	res.Obs("pairs_outcome_"+pr.outcome, 1)
	res.Obs("exchange_calls", atomic.LoadInt64(&fake.calls))
	if n := atomic.LoadInt64(&fake.badReq); n > 0 {
		res.Obs("exchange_requests_not_decodable", n)
	}
}

func TestVerifC15Dialer(t *testing.T) {
	res := vlib.NewResult("C15", "inpkg-clientlib-c15-dialer", "real WebRTCDialer.Catch / NewWebRTCPeerWithEvents with ICE configurations {none, live STUN, dead STUN, empty URL, garbage, unsupported scheme, TURN without credentials, stun: without host, valid+empty} x scripted rendezvous outcomes {transport error, non-200, empty/malformed body, error member, answer not JSON / without sdp / wrong member types / garbage SDP, valid answer from a peer that never connects, connecting peer as positive control; plus the real HTTP rendezvous against a refusing port / a 503 / a garbage 200}; N then 3N attempts per pair with pion-goroutine counts at quiescence; non-trivial = pair all of whose attempts returned without panic; distinct by (ICE class, outcome)")
	defer res.Finish()
	c15Quiet(res)
	shard, nshards := vlib.Shard()

	st, err := c15StartSTUN()
	if err != nil {
		res.Inconcl("cannot start the STUN responder: " + err.Error())
		return
	}
	ices := c15ICEList(st.port(), c15DeadUDPPort())

	// the real HTTP rendezvous against a local server
	srv := httptest.NewServer(http.HandlerFunc(func(w http.ResponseWriter, r *http.Request) {
		if strings.HasPrefix(r.URL.Path, "/busy/") {
			w.WriteHeader(http.StatusServiceUnavailable)
			return
		}
		w.Write([]byte("<html>captive portal</html>"))
	}))
	dl, _ := net.Listen("tcp", "127.0.0.1:0")
	deadTCP := dl.Addr().String()
	dl.Close()
	httpURL := map[string]string{
		"http:connection-refused": "http://" + deadTCP + "/",
		"http:503":                srv.URL + "/busy/",
		"http:200-garbage":        srv.URL + "/",
	}

	var pairs []c15Pair
	for _, ic := range ices {
		if !ic.Valid {
			// the rendezvous is never reached
			pairs = append(pairs, c15Pair{ice: ic, outcome: "transport-error", cost: 2})
			continue
		}
		outs := append([]string{}, c15Outcomes...)
		outs = append(outs, "http:connection-refused", "http:503", "http:200-garbage")
		if ic.Class == "stun-dead" && !vlib.Thorough() { // 5 s per gathering
			outs = []string{"transport-error", "garbage-sdp", "never-connects"}
		}
		for _, o := range outs {
			cost := 3
			if ic.Class == "stun-dead" {
				cost += 10
			}
			if o == "never-connects" {
				cost += 22
			}
			if o == "connects" {
				cost += 4
			}
			pairs = append(pairs, c15Pair{ice: ic, outcome: o, cost: cost})
		}
	}
	// longest-first assignment to the shards (deterministic)
	sort.SliceStable(pairs, func(i, j int) bool { return pairs[i].cost > pairs[j].cost })
	load := make([]int, nshards)
	evs := &c15Events{n: map[string]int{}}
	var mine []c15Pair
	var mineIdx []int
	for i, p := range pairs {
		best := 0
		for s := 1; s < nshards; s++ {
			if load[s] < load[best] {
				best = s
			}
		}
		load[best] += p.cost
		if best == shard {
			mine = append(mine, p)
			mineIdx = append(mineIdx, i)
		}
	}
	for k, p := range mine {
		c15RunPair(res, p, mineIdx[k], evs, httpURL)
	}
	evs.mu.Lock()
	for k, v := range evs.n {
		res.Obs("event:"+k, int64(v))
	}
	evs.mu.Unlock()
	res.Obs("stun_binding_requests_answered", atomic.LoadInt64(&st.requests))
	res.Note("pairs_total", len(pairs))
	res.RequireObs("pairs", int64(len(mine)))
	res.RequireObs("leak_checks", int64(len(mine)))
	if len(mine) > 0 {
		res.Require(res.GetObs("attempts_returned_error")+res.GetObs("attempts_panicked")+res.GetObs("positive_control_connected") > 0, "no attempt produced a verdict")
	}
}
