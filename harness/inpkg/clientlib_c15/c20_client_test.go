// C20 workload (client): what concurrent SOCKS handlers of the client binary do
// at the same instant - each builds its own transport from its own
// configuration (NewSnowflakeClient -> broker channel, rendezvous method, HTTP
// transport, dialer), uses it and closes it - here from many goroutines at
// once, with differing configurations. The race detector is the oracle; this
// function drives and counts.
package snowflake_client

import (
	"fmt"
	"io/ioutil"
	"log"
	"sync"
	"sync/atomic"
	"testing"

	"verif/vlib"
)

func TestVerifC20ClientTransports(t *testing.T) {
	res := vlib.NewResult("C20", "inpkg-clientlib-c20-transports", "N goroutines create client transports concurrently from differing configurations (plain, front, AMP cache, uTLS with/without SNI, fingerprints, ICE lists, max), read the broker channel's state and set its NAT type; distinct = one per goroutine and round")
	defer res.Finish()
	log.SetOutput(ioutil.Discard) // no file-descriptor writes between the racing accesses
	root := vlib.NewRand(vlib.Seed()).Split("c20client")
	workers := 16
	rounds := vlib.Scale(40, 400)
	var created, failed int64
	var wg sync.WaitGroup
	for w := 0; w < workers; w++ {
		wg.Add(1)
		go func(w int) {
			defer wg.Done()
			r := root.SplitN("w", w)
			for i := 0; i < rounds; i++ {
				cfg := ClientConfig{
					BrokerURL:         fmt.Sprintf("https://broker-%d.example/", r.Intn(4)),
					ICEAddresses:      []string{"stun:127.0.0.1:3478"},
					Max:               r.Range(1, 3),
					BridgeFingerprint: r.PickString([]string{"", "2B280B23E1107BB62ABFC40DDCC8824814F80A72"}),
				}
				switch r.Intn(5) {
				case 1:
					cfg.FrontDomain = "front.example"
				case 2:
					cfg.AmpCacheURL = "https://cache.example/"
					cfg.FrontDomain = r.PickString([]string{"", "front.example"})
				case 3:
					cfg.UTLSClientID = r.PickString([]string{"hellochrome_auto", "hellofirefox_auto", "hellorandomizedalpn"})
					cfg.UTLSRemoveSNI = r.Bool()
				case 4:
					cfg.KeepLocalAddresses = true
				}
				tr, err := NewSnowflakeClient(cfg)
				if err != nil {
					atomic.AddInt64(&failed, 1)
					continue
				}
				atomic.AddInt64(&created, 1)
				if d := tr.dialer; d != nil && d.BrokerChannel != nil {
					d.BrokerChannel.SetNATType(r.PickString([]string{"unknown", "restricted", "unrestricted"}))
					_ = d.GetMax()
				}
				res.Distinct(fmt.Sprintf("w%d/%d", w, i))
			}
		}(w)
	}
	wg.Wait()
	res.Eval(atomic.LoadInt64(&created) + atomic.LoadInt64(&failed))
	res.Obs("client_transports_created_concurrently", atomic.LoadInt64(&created))
	res.Obs("client_transport_creations_failed", atomic.LoadInt64(&failed))
	res.Sample(1, map[string]interface{}{"case": "c20-client-transports", "workers": workers, "rounds": rounds, "created": atomic.LoadInt64(&created)})
	res.RequireObs("client_transports_created_concurrently", int64(workers*rounds/2))
}
