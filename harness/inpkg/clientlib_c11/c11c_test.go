// C11 part (c): "With a front domain configured the client connects to the
// front and names the broker only in the HTTP Host header; a non-200 status or
// a body beyond the 100 KB limit is reported as an error, never as truncated
// data."
//
// The real rendezvous objects are built the way the client builds them
// (newBrokerChannelFromConfig -> httpRendezvous / ampCacheRendezvous on the
// transport of createBrokerTransport) and every TCP connection the transport
// wants to open is redirected to a local front listener that records the
// address that was asked for, the TLS server name, and every request, and that
// answers from a script (status codes, bodies around the limit, bodies cut
// short). go 1.13 language level.
package snowflake_client

import (
	"bytes"
	"context"
	"crypto/ecdsa"
	"crypto/elliptic"
	crand "crypto/rand"
	"crypto/tls"
	"crypto/x509"
	"crypto/x509/pkix"
	"encoding/base64"
	"encoding/hex"
	"fmt"
	"hash/fnv"
	"io/ioutil"
	"log"
	"math/big"
	"net"
	"net/http"
	"net/url"
	"strconv"
	"strings"
	"sync"
	"sync/atomic"
	"testing"
	"time"

	"git.torproject.org/pluggable-transports/snowflake.git/v2/common/amp"
	"git.torproject.org/pluggable-transports/snowflake.git/v2/common/messages"
	"git.torproject.org/pluggable-transports/snowflake.git/v2/common/util"
	"github.com/pion/webrtc/v3"
	"verif/vlib"
)

// ---------------------------------------------------------------------------
// the front listener

// c11cScript is what the front answers to the next request(s).
type c11cScript struct {
	Class    string // stable class name (observation key)
	Status   int
	Location string
	Body     []byte // the complete response body the server means to send
	Payload  []byte // what a faithful client hands back for the complete body; nil = undefined
	Framing  string // cl | chunked | cut-cl | cut-chunked | bad-chunk
	CutAt    int    // cut-*: number of body bytes really sent before the connection is closed
	Demand   string // "" = by status/size; "location" = 200 with Location (AMP: must be an error); "none" = observe only
}

type c11cReq struct {
	Method string
	Host   string
	URI    string
	Path   string
	Body   []byte
	TLS    bool
	SNI    string
}

// c11cSeen is everything the front observed during one exchange.
type c11cSeen struct {
	dials []string // addresses the transport asked to connect to
	snis  []string // server names of TLS handshakes
	reqs  []c11cReq
}

type c11cFront struct {
	mu        sync.Mutex
	cur       *c11cSeen
	script    *c11cScript
	useTLS    bool
	plainAddr string
	tlsAddr   string
	stray     int   // dials / requests outside any exchange
	dialled   int64 // all dials
	accepted  int64 // TCP connections accepted by the two listeners
	servers   []*http.Server
}

type c11cCountingListener struct {
	net.Listener
	f *c11cFront
}

func (l c11cCountingListener) Accept() (net.Conn, error) {
	c, err := l.Listener.Accept()
	if err == nil {
		atomic.AddInt64(&l.f.accepted, 1)
	}
	return c, err
}

func c11cSelfSigned() (tls.Certificate, error) {
	key, err := ecdsa.GenerateKey(elliptic.P256(), crand.Reader)
	if err != nil {
		return tls.Certificate{}, err
	}
	tmpl := &x509.Certificate{
		SerialNumber: big.NewInt(1),
		Subject:      pkix.Name{CommonName: "c11c front listener"},
		NotBefore:    time.Now().Add(-time.Hour),
		NotAfter:     time.Now().Add(48 * time.Hour),
		KeyUsage:     x509.KeyUsageDigitalSignature,
		ExtKeyUsage:  []x509.ExtKeyUsage{x509.ExtKeyUsageServerAuth},
		DNSNames:     []string{"front.invalid"},
	}
	der, err := x509.CreateCertificate(crand.Reader, tmpl, tmpl, &key.PublicKey, key)
	if err != nil {
		return tls.Certificate{}, err
	}
	return tls.Certificate{Certificate: [][]byte{der}, PrivateKey: key}, nil
}

func c11cNewFront() (*c11cFront, error) {
	f := &c11cFront{}
	lp, err := net.Listen("tcp", "127.0.0.1:0")
	if err != nil {
		return nil, err
	}
	lt, err := net.Listen("tcp", "127.0.0.1:0")
	if err != nil {
		return nil, err
	}
	cert, err := c11cSelfSigned()
	if err != nil {
		return nil, err
	}
	f.plainAddr = lp.Addr().String()
	f.tlsAddr = lt.Addr().String()
	tcfg := &tls.Config{
		Certificates: []tls.Certificate{cert},
		NextProtos:   []string{"http/1.1"},
		GetConfigForClient: func(chi *tls.ClientHelloInfo) (*tls.Config, error) {
			f.mu.Lock()
			if f.cur != nil {
				f.cur.snis = append(f.cur.snis, chi.ServerName)
			} else {
				f.stray++
			}
			f.mu.Unlock()
			return nil, nil
		},
	}
	quiet := log.New(ioutil.Discard, "", 0)
	sp := &http.Server{Handler: f, ErrorLog: quiet}
	st := &http.Server{Handler: f, ErrorLog: quiet}
	f.servers = []*http.Server{sp, st}
	go sp.Serve(c11cCountingListener{lp, f})
	go st.Serve(tls.NewListener(c11cCountingListener{lt, f}, tcfg))
	return f, nil
}

func (f *c11cFront) close() {
	for _, s := range f.servers {
		s.Close()
	}
}

// dial is the DialContext of the broker transport: it records the address the
// transport wants and connects to the front listener instead.
func (f *c11cFront) dial(ctx context.Context, network, addr string) (net.Conn, error) {
	f.mu.Lock()
	if f.cur != nil {
		f.cur.dials = append(f.cur.dials, addr)
	} else {
		f.stray++
	}
	target := f.plainAddr
	if f.useTLS {
		target = f.tlsAddr
	}
	f.mu.Unlock()
	atomic.AddInt64(&f.dialled, 1)
	var d net.Dialer
	return d.DialContext(ctx, "tcp", target)
}

func (f *c11cFront) begin(sc *c11cScript, useTLS bool) {
	f.mu.Lock()
	f.cur = &c11cSeen{}
	f.script = sc
	f.useTLS = useTLS
	f.mu.Unlock()
}

func (f *c11cFront) end() *c11cSeen {
	f.mu.Lock()
	s := f.cur
	f.cur = nil
	f.script = nil
	f.mu.Unlock()
	return s
}

func (f *c11cFront) ServeHTTP(w http.ResponseWriter, r *http.Request) {
	body, _ := ioutil.ReadAll(r.Body)
	rec := c11cReq{Method: r.Method, Host: r.Host, URI: r.RequestURI, Path: r.URL.Path, Body: body, TLS: r.TLS != nil}
	if r.TLS != nil {
		rec.SNI = r.TLS.ServerName
	}
	f.mu.Lock()
	sc := f.script
	if f.cur != nil {
		f.cur.reqs = append(f.cur.reqs, rec)
	} else {
		f.stray++
	}
	f.mu.Unlock()
	if sc == nil {
		http.Error(w, "no script", http.StatusInternalServerError)
		return
	}
	switch sc.Framing {
	case "cl", "chunked":
		h := w.Header()
		h.Set("Content-Type", "text/html")
		if sc.Location != "" {
			h.Set("Location", sc.Location)
		}
		nobody := sc.Status == 204 || sc.Status == 304
		if sc.Framing == "cl" && !nobody {
			h.Set("Content-Length", strconv.Itoa(len(sc.Body)))
		}
		w.WriteHeader(sc.Status)
		if nobody {
			return
		}
		if sc.Framing == "cl" {
			w.Write(sc.Body)
			return
		}
		fl, _ := w.(http.Flusher)
		b := sc.Body
		step := len(b)/3 + 1
		for len(b) > 0 {
			n := step
			if n > len(b) {
				n = len(b)
			}
			if _, err := w.Write(b[:n]); err != nil {
				return
			}
			if fl != nil {
				fl.Flush()
			}
			b = b[n:]
		}
	default:
		hj, ok := w.(http.Hijacker)
		if !ok {
			http.Error(w, "cannot hijack", http.StatusInternalServerError)
			return
		}
		conn, _, err := hj.Hijack()
		if err != nil {
			return
		}
		defer conn.Close()
		var b bytes.Buffer
		part := sc.Body[:sc.CutAt]
		if sc.Framing == "cut-cl" {
			fmt.Fprintf(&b, "HTTP/1.1 200 OK\r\nContent-Type: text/html\r\nContent-Length: %d\r\n\r\n", len(sc.Body))
			b.Write(part)
		} else {
			b.WriteString("HTTP/1.1 200 OK\r\nContent-Type: text/html\r\nTransfer-Encoding: chunked\r\n\r\n")
			for len(part) > 0 {
				n := 16000
				if n > len(part) {
					n = len(part)
				}
				fmt.Fprintf(&b, "%x\r\n", n)
				b.Write(part[:n])
				b.WriteString("\r\n")
				part = part[n:]
			}
			if sc.Framing == "bad-chunk" {
				b.WriteString("zz\r\nnot a chunk\r\n")
			}
			// cut-chunked: no terminating 0-chunk
		}
		conn.Write(b.Bytes())
	}
}

// ---------------------------------------------------------------------------
// AMP armor written by the harness (so that element boundaries and the total
// length can be placed exactly)

const c11cElemBytes = 12000 // payload bytes per <pre> element; a multiple of 3 (no base64 padding inside)

func c11cArmorParts(p []byte) (head []byte, elems [][]byte, tail []byte) {
	head = []byte("<!doctype html>\n<html amp>\n<head>\n<meta charset=\"utf-8\">\n<link rel=\"canonical\" href=\"#\">\n</head>\n<body>\n")
	tail = []byte("</body>\n</html>")
	first := true
	for off := 0; first || off < len(p); off += c11cElemBytes {
		end := off + c11cElemBytes
		if end > len(p) {
			end = len(p)
		}
		var b bytes.Buffer
		b.WriteString("<pre>\n")
		text := base64.StdEncoding.EncodeToString(p[off:end])
		if first {
			text = "0" + text // server-client version indicator
			first = false
		}
		for len(text) > 0 {
			n := 64
			if n > len(text) {
				n = len(text)
			}
			b.WriteString(text[:n])
			b.WriteByte('\n')
			text = text[n:]
		}
		b.WriteString("</pre>\n")
		elems = append(elems, b.Bytes())
	}
	return
}

// c11cFiller is exactly n bytes of inert HTML (no <pre>, no token above 1 KB).
func c11cFiller(n int) []byte {
	var b bytes.Buffer
	for n >= 7 {
		k := n - 7
		if k > 900 {
			k = 900
		}
		b.WriteString("<b>")
		b.WriteString(strings.Repeat(".", k))
		b.WriteString("</b>")
		n -= 7 + k
	}
	b.WriteString(strings.Repeat(" ", n))
	return b.Bytes()
}

// c11cArmorSized armors p into exactly total bytes (filler after the last
// element); nil when it does not fit.
func c11cArmorSized(p []byte, total int) []byte {
	head, elems, tail := c11cArmorParts(p)
	var b bytes.Buffer
	b.Write(head)
	for _, e := range elems {
		b.Write(e)
	}
	pad := total - b.Len() - len(tail)
	if pad < 0 {
		return nil
	}
	b.Write(c11cFiller(pad))
	b.Write(tail)
	return b.Bytes()
}

// c11cArmorBoundary armors p so that the first `boundary` bytes are whole
// elements plus filler (a valid armor of a strict prefix of p), the remaining
// elements following. It returns nil if no element fits before the boundary or
// none is left after it.
func c11cArmorBoundary(p []byte, boundary int) []byte {
	head, elems, tail := c11cArmorParts(p)
	var b bytes.Buffer
	b.Write(head)
	k := 0
	for k < len(elems) && b.Len()+len(elems[k]) <= boundary {
		b.Write(elems[k])
		k++
	}
	if k == 0 || k == len(elems) {
		return nil
	}
	b.Write(c11cFiller(boundary - b.Len()))
	for ; k < len(elems); k++ {
		b.Write(elems[k])
	}
	b.Write(tail)
	return b.Bytes()
}

func c11cArmorReal(p []byte) []byte {
	var buf bytes.Buffer
	enc, err := amp.NewArmorEncoder(&buf)
	if err != nil {
		panic(err)
	}
	if _, err = enc.Write(p); err != nil {
		panic(err)
	}
	if err = enc.Close(); err != nil {
		panic(err)
	}
	return buf.Bytes()
}

// ---------------------------------------------------------------------------
// response scripts

var c11cStatusCodes = []int{201, 202, 204, 206, 301, 302, 304, 307, 400, 403, 404, 429, 500, 502, 503}

func c11cSmallAnswer(r *vlib.Rand) []byte {
	sdp := "v=0\r\no=- " + strconv.Itoa(r.Intn(1<<30)) + " 2 IN IP4 0.0.0.0\r\ns=-\r\nt=0 0\r\na=ice-ufrag:" + hex.EncodeToString(r.Bytes(4)) + "\r\n"
	ans, _ := util.SerializeSessionDescription(&webrtc.SessionDescription{Type: webrtc.SDPTypeAnswer, SDP: sdp})
	b, _ := (&messages.ClientPollResponse{Answer: ans}).EncodePollResponse()
	return b
}

// c11cBuildScripts builds the two response tables (HTTP rendezvous, AMP
// rendezvous). L is the limit of the property (readLimit).
func c11cBuildScripts(r *vlib.Rand, L int) (httpTab, ampTab []*c11cScript) {
	big := r.Bytes(3*L + 16)
	small := c11cSmallAnswer(r)
	type sz struct {
		name string
		n    int
	}
	sizes := []sz{{"0", 0}, {"1", 1}, {"1000", 1000}, {"L-1", L - 1}, {"L", L}, {"L+1", L + 1}, {"L+2", L + 2}, {"100KiB+1", 102401}, {"2L", 2 * L}, {"3L", 3 * L}}

	// ---- HTTP rendezvous: the body is the data
	for _, s := range sizes {
		for _, fr := range []string{"cl", "chunked"} {
			body := big[:s.n]
			httpTab = append(httpTab, &c11cScript{Class: "size=" + s.name + "/" + fr, Status: 200, Body: body, Payload: body, Framing: fr})
		}
	}
	arm := c11cArmorReal(big[:300])
	httpTab = append(httpTab, &c11cScript{Class: "armored-bytes/cl", Status: 200, Body: arm, Payload: arm, Framing: "cl"})
	for _, code := range c11cStatusCodes {
		sc := &c11cScript{Class: "status=" + strconv.Itoa(code), Status: code, Body: small, Payload: small, Framing: "cl"}
		if code/100 == 3 && code != 304 {
			sc.Location = "http://redirect-target.example/client"
		}
		httpTab = append(httpTab, sc)
	}
	httpTab = append(httpTab, &c11cScript{Class: "200-with-location", Status: 200, Location: "https://elsewhere.example/client", Body: small, Payload: small, Framing: "cl", Demand: "none"})
	b5 := big[:5000]
	b90 := big[:90000]
	b2L := big[:2*L]
	httpTab = append(httpTab,
		&c11cScript{Class: "cut:cl-half", Status: 200, Body: b5, Payload: b5, Framing: "cut-cl", CutAt: 2500},
		&c11cScript{Class: "cut:cl-no-body-bytes", Status: 200, Body: b5, Payload: b5, Framing: "cut-cl", CutAt: 0},
		&c11cScript{Class: "cut:cl-one-byte-short", Status: 200, Body: b90, Payload: b90, Framing: "cut-cl", CutAt: len(b90) - 1},
		&c11cScript{Class: "cut:cl-over-limit-half", Status: 200, Body: b2L, Payload: b2L, Framing: "cut-cl", CutAt: L / 2},
		&c11cScript{Class: "cut:chunked-no-terminator", Status: 200, Body: b5, Payload: b5, Framing: "cut-chunked", CutAt: 2500},
		&c11cScript{Class: "cut:chunked-all-but-terminator", Status: 200, Body: b5, Payload: b5, Framing: "cut-chunked", CutAt: 5000},
		&c11cScript{Class: "cut:chunked-bad-chunk", Status: 200, Body: b5, Payload: b5, Framing: "bad-chunk", CutAt: 2500},
	)

	// ---- AMP rendezvous: the body is armor, the data is what is inside
	pSmall := big[100:700]
	pLarge := big[1000 : 1000+5*c11cElemBytes]
	for _, s := range sizes[3:] {
		if b := c11cArmorSized(pSmall, s.n); b != nil {
			ampTab = append(ampTab, &c11cScript{Class: "armor-own:S=" + s.name + ":small/cl", Status: 200, Body: b, Payload: pSmall, Framing: "cl"})
			ampTab = append(ampTab, &c11cScript{Class: "armor-own:S=" + s.name + ":small/chunked", Status: 200, Body: b, Payload: pSmall, Framing: "chunked"})
		}
		if b := c11cArmorSized(pLarge, s.n); b != nil {
			ampTab = append(ampTab, &c11cScript{Class: "armor-own:S=" + s.name + ":large/cl", Status: 200, Body: b, Payload: pLarge, Framing: "cl"})
		}
	}
	pHuge := big[:10*c11cElemBytes]
	if b := c11cArmorBoundary(pHuge, L+1); b != nil {
		ampTab = append(ampTab, &c11cScript{Class: "armor-own:element-boundary@L+1", Status: 200, Body: b, Payload: pHuge, Framing: "cl"})
	}
	if b := c11cArmorBoundary(pHuge, L); b != nil {
		ampTab = append(ampTab, &c11cScript{Class: "armor-own:element-boundary@L", Status: 200, Body: b, Payload: pHuge, Framing: "chunked"})
	}
	if b := c11cArmorSized(pHuge, 2*L); b != nil {
		ampTab = append(ampTab, &c11cScript{Class: "armor-own:limit-inside-element", Status: 200, Body: b, Payload: pHuge, Framing: "cl"})
	}
	for _, n := range []int{1, 300, 60000, 71000, 72000, 73000, 74000, 100000, 100001, 200000} {
		p := big[7 : 7+n]
		ampTab = append(ampTab, &c11cScript{Class: "armor-real:P=" + strconv.Itoa(n), Status: 200, Body: c11cArmorReal(p), Payload: p, Framing: "cl"})
	}
	for _, s := range []sz{{"0", 0}, {"1000", 1000}, {"L", L}, {"L+1", L + 1}, {"2L", 2 * L}} {
		ampTab = append(ampTab, &c11cScript{Class: "plain:S=" + s.name, Status: 200, Body: big[:s.n], Framing: "cl"})
	}
	ampTab = append(ampTab, &c11cScript{Class: "plain:json-answer", Status: 200, Body: small, Framing: "cl"})
	smallArm := c11cArmorReal(small)
	for _, code := range c11cStatusCodes {
		sc := &c11cScript{Class: "status=" + strconv.Itoa(code), Status: code, Body: smallArm, Payload: small, Framing: "cl"}
		if code/100 == 3 && code != 304 {
			sc.Location = "https://origin.example/amp/client/0AAAA/AAAA"
		}
		ampTab = append(ampTab, sc)
	}
	ampTab = append(ampTab,
		&c11cScript{Class: "200-with-location:absolute", Status: 200, Location: "https://origin.example/amp/client/0AAAA/AAAA", Body: smallArm, Payload: small, Framing: "cl", Demand: "location"},
		&c11cScript{Class: "200-with-location:relative", Status: 200, Location: "/amp/client/0AAAA/AAAA", Body: smallArm, Payload: small, Framing: "cl", Demand: "location"},
	)
	p3 := big[50 : 50+3*c11cElemBytes]
	head, elems, _ := c11cArmorParts(p3)
	a3 := c11cArmorSized(p3, 60000)
	atBoundary := len(head) + len(elems[0]) + len(elems[1])
	ampTab = append(ampTab,
		&c11cScript{Class: "cut:cl-at-element-boundary", Status: 200, Body: a3, Payload: p3, Framing: "cut-cl", CutAt: atBoundary},
		&c11cScript{Class: "cut:cl-inside-element", Status: 200, Body: a3, Payload: p3, Framing: "cut-cl", CutAt: atBoundary + 4001},
		&c11cScript{Class: "cut:cl-no-body-bytes", Status: 200, Body: a3, Payload: p3, Framing: "cut-cl", CutAt: 0},
		&c11cScript{Class: "cut:cl-after-last-element", Status: 200, Body: a3, Payload: p3, Framing: "cut-cl", CutAt: len(a3) - 5},
		&c11cScript{Class: "cut:chunked-at-element-boundary", Status: 200, Body: a3, Payload: p3, Framing: "cut-chunked", CutAt: atBoundary},
		&c11cScript{Class: "cut:chunked-bad-chunk-at-element-boundary", Status: 200, Body: a3, Payload: p3, Framing: "bad-chunk", CutAt: atBoundary},
	)
	return
}

// ---------------------------------------------------------------------------
// configurations and what the property makes of them

type c11cConfig struct {
	Idx         int
	Mode        string // http | amp-cache | amp-direct
	Broker      string
	Cache       string
	Front       string
	UTLS        string
	Fingerprint string
	BrokerPort  string // none | default | other
	BrokerPath  string
}

func (c c11cConfig) key() string {
	return c.Mode + "|" + c.Broker + "|" + c.Cache + "|" + c.Front + "|" + c.UTLS
}

func c11cLabel(r *vlib.Rand) string {
	const al = "abcdefghijklmnopqrstuvwxyz0123456789"
	n := r.Range(1, 12)
	b := make([]byte, n)
	for i := range b {
		b[i] = al[r.Intn(len(al))]
	}
	if n >= 5 && r.Chance(1, 3) {
		b[r.Range(1, n-2)] = '-'
	}
	return string(b)
}

func c11cDomain(r *vlib.Rand, known []string, zones []string) string {
	if r.Chance(1, 4) {
		return r.PickString(known)
	}
	var labels []string
	for i, n := 0, r.Range(1, 3); i < n; i++ {
		labels = append(labels, c11cLabel(r))
	}
	return strings.Join(labels, ".") + "." + r.PickString(zones)
}

func c11cGenConfig(r *vlib.Rand, i int) c11cConfig {
	s := i % 18
	cfg := c11cConfig{Idx: i, Mode: []string{"http", "amp-cache", "amp-direct"}[s%3]}
	frontKind := (s / 3) % 3
	https := (s/9)%2 == 1 // scheme of the request that leaves the client
	scheme := func(tls bool) string {
		if tls {
			return "https"
		}
		return "http"
	}
	// broker
	brokerHTTPS := https
	if cfg.Mode == "amp-cache" {
		brokerHTTPS = r.Chance(2, 3)
	}
	host := c11cDomain(r, []string{"snowflake-broker.torproject.net", "snowflake-broker.bamsoftware.test", "snowflake-broker.azureedge.test", "broker"}, []string{"broker.example", "torproject.test", "brokers.example.org"})
	bracket := host
	if cfg.Mode != "amp-cache" {
		switch r.Intn(10) {
		case 0:
			host = "192.0.2." + strconv.Itoa(r.Range(1, 254))
			bracket = host
		case 1:
			host = "2001:db8::" + strconv.FormatInt(int64(r.Range(1, 0xffff)), 16)
			bracket = "[" + host + "]"
		case 2:
			host = strings.ToUpper(host[:1]) + host[1:]
			bracket = host
		}
	}
	def := "80"
	if brokerHTTPS {
		def = "443"
	}
	cfg.BrokerPort = "none"
	pk := r.Intn(10)
	if cfg.Mode == "amp-cache" {
		// a port other than the default makes CacheURL refuse the pair
		// (documented): one block of 18 in 8 has it, the others never
		if (i/18)%8 == 7 {
			pk = 2
		} else if pk >= 2 && pk <= 3 {
			pk = 9
		}
	}
	switch {
	case pk < 2:
		bracket += ":" + def
		cfg.BrokerPort = "default"
	case pk < 4:
		bracket += ":" + r.PickString([]string{"8080", "8443", "1", "65535", "4433"})
		cfg.BrokerPort = "other"
	}
	cfg.BrokerPath = r.PickString([]string{"", "/", "/sub/", "/a/b/", "/sub", "/a.b/c~d/", "/x/y"})
	cfg.Broker = scheme(brokerHTTPS) + "://" + bracket + cfg.BrokerPath
	// cache
	if cfg.Mode == "amp-cache" {
		ch := c11cDomain(r, []string{"cdn.ampproject.org", "amp.cloudflare.test", "bing-amp.test"}, []string{"ampcache.example", "amp-caches.test"})
		if r.Chance(1, 5) {
			ch += ":" + r.PickString([]string{"8080", "8443", "443", "80"})
		}
		cp := ""
		if r.Chance(1, 3) {
			cp = r.PickString([]string{"/", "/amp", "/x/y/", "/v0"})
		}
		cfg.Cache = scheme(https) + "://" + ch + cp
	}
	// front
	if frontKind > 0 {
		cfg.Front = c11cDomain(r, []string{"cdn.sstatic.test", "ajax.aspnetcdn.test", "www.google.test", "front"}, []string{"front.example", "fronts.test", "cdn-front.example.net"})
		if frontKind == 2 {
			cfg.Front += ":" + r.PickString([]string{"80", "443", "8080", "8443", "4443"})
		}
	}
	if !https && cfg.Mode != "amp-direct" && r.Chance(1, 6) {
		// with uTLS configured, plain-http requests go through the same transport
		cfg.UTLS = r.PickString([]string{"hellochrome_auto", "hellofirefox_auto", "helloios_auto"})
	}
	if r.Chance(2, 3) {
		cfg.Fingerprint = strings.ToUpper(hex.EncodeToString(r.Bytes(20)))
	}
	return cfg
}

// c11cExpect is what the property (with the documented behaviour of the
// rendezvous methods and of amp.CacheURL) makes of a configuration.
type c11cExpect struct {
	Rejected   string // non-empty: amp.CacheURL refuses this broker/cache pair (documented); no request is expected
	Scheme     string // scheme of the request leaving the client
	URLHost    string // host[:port] of the un-fronted request URL: what Host must name
	Authority  string // host[:port] the TCP connection (and SNI) must name: the front if set, else URLHost
	BrokerName string // the broker's hostname
	Method     string
	PathPrefix string // http: the whole path; amp: everything before the encoded poll
}

func c11cHostPort(hostport string) (string, string) {
	u := url.URL{Host: hostport}
	return u.Hostname(), u.Port()
}

func c11cDefaultPort(scheme string) string {
	if scheme == "https" {
		return "443"
	}
	return "80"
}

func c11cExpectOf(cfg c11cConfig) (c11cExpect, error) {
	var e c11cExpect
	bu, err := url.Parse(cfg.Broker)
	if err != nil {
		return e, err
	}
	e.BrokerName = bu.Hostname()
	// RFC 3986 5.2 for a relative reference without leading slash: the last
	// segment of the base path is replaced.
	dir := "/"
	if i := strings.LastIndex(bu.Path, "/"); i >= 0 {
		dir = bu.Path[:i+1]
	}
	switch cfg.Mode {
	case "http":
		e.Scheme, e.URLHost, e.Method, e.PathPrefix = bu.Scheme, bu.Host, "POST", dir+"client"
	case "amp-direct":
		e.Scheme, e.URLHost, e.Method, e.PathPrefix = bu.Scheme, bu.Host, "GET", dir+"amp/client/"
	case "amp-cache":
		cu, err := url.Parse(cfg.Cache)
		if err != nil {
			return e, err
		}
		pub := &url.URL{Scheme: bu.Scheme, Host: bu.Host, Path: dir + "amp/client/0AAAA/AAAA"}
		mapped, err := amp.CacheURL(pub, cu, "c")
		if err != nil {
			e.Rejected = err.Error()
			return e, nil
		}
		e.Scheme, e.URLHost, e.Method = cu.Scheme, mapped.Host, "GET"
		// the documented mapping: <cache path>/c[/s]/<publisher host><publisher path>
		cp := strings.Trim(cu.Path, "/")
		if cp != "" {
			cp = "/" + cp
		}
		e.PathPrefix = cp + "/c"
		if bu.Scheme == "https" {
			e.PathPrefix += "/s"
		}
		e.PathPrefix += "/" + bu.Hostname() + dir + "amp/client/"
		// sanity of the Host we expect: <one dot-free label>.<cache host>[:port]
		mh, mp := c11cHostPort(mapped.Host)
		ch, cport := c11cHostPort(cu.Host)
		if !strings.HasSuffix(mh, "."+ch) || mp != cport || strings.Contains(strings.TrimSuffix(mh, "."+ch), ".") || len(mh) == len(ch)+1 {
			return e, fmt.Errorf("amp.CacheURL host %q is not <label>.%s", mapped.Host, cu.Host)
		}
	}
	e.Authority = e.URLHost
	if cfg.Front != "" {
		e.Authority = cfg.Front
	}
	return e, nil
}

// c11cNames: does the Host header `got` name the authority `want`? (host
// equal ignoring case; an absent port means the default of the scheme)
func c11cNames(got, want, scheme string) bool {
	gh, gp := c11cHostPort(got)
	wh, wp := c11cHostPort(want)
	if gp == "" {
		gp = c11cDefaultPort(scheme)
	}
	if wp == "" {
		wp = c11cDefaultPort(scheme)
	}
	return strings.EqualFold(gh, wh) && gp == wp
}

// ---------------------------------------------------------------------------
// the harness

type c11cHarness struct {
	res   *vlib.Result
	front *c11cFront
	tr    *http.Transport
	L     int
	dead  bool // an exchange did not return: nothing more can be decided
}

// redirect makes sure the connections of the transport a rendezvous method was
// given go to the front listener. createBrokerTransport hands out
// http.DefaultTransport or a clone of it, which already carries the recorder;
// a transport built from scratch gets it here, before its first use.
func (h *c11cHarness) redirect(rt http.RoundTripper) *http.Transport {
	t2, ok := rt.(*http.Transport)
	if !ok {
		return nil // wrapped (uTLS): plain-http requests go to the wrapped clone
	}
	if t2 != h.tr {
		t2.DialContext = h.front.dial
		if t2.TLSClientConfig == nil {
			t2.TLSClientConfig = &tls.Config{InsecureSkipVerify: true}
		} else if !t2.TLSClientConfig.InsecureSkipVerify {
			t2.TLSClientConfig.InsecureSkipVerify = true
		}
		h.res.Obs("cfg:transport-is-own-copy", 1)
	} else {
		h.res.Obs("cfg:transport-is-default-transport", 1)
	}
	return t2
}

func c11cHexPrefix(b []byte) string {
	if len(b) > 48 {
		return hex.EncodeToString(b[:48]) + "..."
	}
	return hex.EncodeToString(b)
}

func c11cHash(b []byte) string {
	h := fnv.New64a()
	h.Write(b)
	return strconv.FormatUint(h.Sum64(), 16)
}

func (h *c11cHarness) record(cfg c11cConfig, caseID string, sc *c11cScript, poll []byte, seen *c11cSeen, data []byte, err error) map[string]interface{} {
	rec := map[string]interface{}{
		"case": caseID, "mode": cfg.Mode, "broker": cfg.Broker, "cache": cfg.Cache, "front": cfg.Front, "utls": cfg.UTLS,
		"poll_len": len(poll), "poll_hex": c11cHexPrefix(poll),
	}
	if sc != nil {
		rec["response"] = map[string]interface{}{"class": sc.Class, "status": sc.Status, "location": sc.Location, "framing": sc.Framing, "body_len": len(sc.Body), "cut_at": sc.CutAt, "payload_len": len(sc.Payload)}
	}
	if seen != nil {
		rec["dialled"] = append([]string{}, seen.dials...)
		rec["sni"] = append([]string{}, seen.snis...)
		var rs []map[string]interface{}
		for _, q := range seen.reqs {
			rs = append(rs, map[string]interface{}{"method": q.Method, "host": q.Host, "uri_prefix": c11cCut(q.URI, 200), "body_len": len(q.Body), "tls": q.TLS})
		}
		rec["requests"] = rs
	}
	if err != nil {
		rec["returned_error"] = err.Error()
	} else {
		rec["returned_error"] = nil
	}
	rec["returned_len"] = len(data)
	return rec
}

func c11cCut(s string, n int) string {
	if len(s) > n {
		return s[:n] + "..."
	}
	return s
}

// run performs f (one Exchange or Negotiate) under the front's observation.
func (h *c11cHarness) run(caseID string, sc *c11cScript, useTLS bool, rec map[string]interface{}, f func()) (*c11cSeen, bool) {
	h.res.CaseLog(caseID)
	h.front.begin(sc, useTLS)
	done := make(chan bool, 1)
	go func() {
		done <- h.res.Guard("c11:panic:rendezvous-exchange", rec, f)
	}()
	select {
	case panicked := <-done:
		seen := h.front.end()
		return seen, !panicked
	case <-time.After(180 * time.Second):
		h.front.end()
		h.res.Inconcl("exchange did not return within 180 s: " + caseID)
		h.dead = true
		return nil, false
	}
}

// judgeRequests checks everything the front saw of one exchange against the
// expectation. poll == nil: the poll bytes are not known to the caller (they
// are returned for a semantic check).
func (h *c11cHarness) judgeRequests(cfg c11cConfig, e c11cExpect, seen *c11cSeen, poll []byte, rec map[string]interface{}) (carried [][]byte, ok bool) {
	res := h.res
	ok = true
	fronted := cfg.Front != ""
	ftag := "front=0"
	if fronted {
		ftag = "front=1"
	}
	urlName, _ := c11cHostPort(e.URLHost)
	wantHost, wantPort := c11cHostPort(e.Authority)
	if wantPort == "" {
		wantPort = c11cDefaultPort(e.Scheme)
	}
	namesBroker := func(hn string) bool {
		return strings.EqualFold(hn, urlName) || strings.EqualFold(hn, e.BrokerName)
	}
	for _, addr := range seen.dials {
		dh, dp, err := net.SplitHostPort(addr)
		good := err == nil && strings.EqualFold(dh, wantHost) && dp == wantPort
		switch {
		case good && fronted:
			res.Obs("dial:fronted:"+cfg.Mode, 1)
		case good:
			res.Obs("dial:direct:"+cfg.Mode, 1)
		case fronted && namesBroker(dh):
			ok = false
			res.Violatef("c11:fronting:dialled-broker-instead-of-front", rec, "front %q is configured but the client asked to connect to %q, which names the broker side (%s); expected %s:%s", cfg.Front, addr, e.URLHost, wantHost, wantPort)
		case fronted:
			ok = false
			res.Violatef("c11:fronting:dialled-unexpected-address", rec, "front %q is configured but the client asked to connect to %q; expected %s:%s", cfg.Front, addr, wantHost, wantPort)
		default:
			ok = false
			res.Violatef("c11:direct:dialled-unexpected-address", rec, "no front: the client asked to connect to %q; expected the URL's host %s:%s", addr, wantHost, wantPort)
		}
	}
	for _, sni := range seen.snis {
		if sni == "" {
			res.Obs("sni:absent", 1) // IP literal
			continue
		}
		switch {
		case strings.EqualFold(sni, wantHost) && fronted:
			res.Obs("sni:fronted", 1)
		case strings.EqualFold(sni, wantHost):
			res.Obs("sni:direct", 1)
		case fronted && namesBroker(sni):
			ok = false
			res.Violatef("c11:fronting:sni-names-broker", rec, "front %q is configured but the TLS server name is %q (broker side: %s)", cfg.Front, sni, e.URLHost)
		case fronted:
			ok = false
			res.Violatef("c11:fronting:sni-unexpected", rec, "front %q is configured but the TLS server name is %q", cfg.Front, sni)
		default:
			ok = false
			res.Violatef("c11:direct:sni-unexpected", rec, "no front: TLS server name %q, expected %q", sni, wantHost)
		}
	}
	for _, q := range seen.reqs {
		res.Obs("req:"+cfg.Mode+":"+ftag+":"+e.Scheme, 1)
		if q.TLS != (e.Scheme == "https") {
			res.Obs("req:unexpected-tls-state", 1)
		}
		if c11cNames(q.Host, e.URLHost, e.Scheme) {
			res.Obs("host-header-ok:"+cfg.Mode+":"+ftag, 1)
		} else if fronted {
			ok = false
			res.Violatef("c11:fronting:wrong-host-header", rec, "front %q is configured: the Host header is %q but must name %q", cfg.Front, q.Host, e.URLHost)
		} else {
			ok = false
			res.Violatef("c11:direct:wrong-host-header", rec, "no front: the Host header is %q but the request URL's host is %q", q.Host, e.URLHost)
		}
		if q.Method != e.Method {
			ok = false
			res.Violatef("c11:request:wrong-method", rec, "%s rendezvous sent %s, expected %s", cfg.Mode, q.Method, e.Method)
		}
		var got []byte
		if cfg.Mode == "http" {
			if q.Path != e.PathPrefix {
				ok = false
				res.Violatef("c11:request:wrong-path", rec, "POST went to path %q, expected the broker URL resolved with \"client\": %q", q.Path, e.PathPrefix)
			}
			got = q.Body
		} else {
			if !strings.HasPrefix(q.Path, e.PathPrefix) {
				ok = false
				res.Violatef("c11:request:wrong-path", rec, "GET path %q does not start with %q", c11cCut(q.Path, 200), e.PathPrefix)
				continue
			}
			dec, err := amp.DecodePath(q.Path[len(e.PathPrefix):])
			if err != nil {
				ok = false
				res.Violatef("c11:request:poll-not-carried", rec, "the path after %q does not decode: %v", e.PathPrefix, err)
				continue
			}
			got = dec
		}
		carried = append(carried, got)
		if poll != nil {
			if bytes.Equal(got, poll) {
				res.Obs("poll-carried:"+cfg.Mode, 1)
			} else {
				ok = false
				res.Violatef("c11:request:poll-not-carried", rec, "the request carries %d bytes (%s) but the poll is %d bytes (%s)", len(got), c11cHexPrefix(got), len(poll), c11cHexPrefix(poll))
			}
		}
	}
	res.ObsMax("requests_per_exchange_max", int64(len(seen.reqs)))
	res.ObsMax("dials_per_exchange_max", int64(len(seen.dials)))
	return carried, ok
}

// judgeResponse checks what Exchange returned against what the front sent.
func (h *c11cHarness) judgeResponse(rmode string, sc *c11cScript, data []byte, err error, nreq int, rec map[string]interface{}) {
	res := h.res
	if nreq == 0 {
		if err == nil {
			res.Violatef("c11:response:data-without-request", rec, "Exchange returned %d bytes without error although no request reached the front", len(data))
		} else {
			res.Obs("resp:no-request-reached-front", 1)
		}
		return
	}
	cls := "resp:" + rmode + ":" + sc.Class
	res.Obs(cls, 1)
	if err != nil {
		res.Obs(cls+":error", 1)
		if len(data) > 0 {
			res.Obs("resp:error-with-partial-data", 1)
		}
	} else {
		res.Obs(cls+":ok", 1)
	}
	if err != nil {
		return // an error is never a refutation: the property does not promise success
	}
	truncated := sc.Payload != nil && len(data) < len(sc.Payload) && bytes.Equal(data, sc.Payload[:len(data)])
	cut := sc.Framing != "cl" && sc.Framing != "chunked"
	switch {
	case sc.Demand == "none":
	case sc.Status != 200:
		res.Violatef("c11:response:non-200-accepted:"+strconv.Itoa(sc.Status), rec, "status %d was answered with %d bytes of data and no error", sc.Status, len(data))
	case sc.Demand == "location":
		res.Violatef("c11:response:amp-200-with-location-accepted", rec, "AMP: a 200 response with Location %q (the cache's silent redirect) was returned as %d bytes of data", sc.Location, len(data))
	case cut:
		if sc.Payload != nil && bytes.Equal(data, sc.Payload) {
			res.Obs("resp:cut-after-complete-payload-accepted", 1) // nothing was lost
		} else if truncated {
			res.Violatef("c11:response:server-cut-body-returned-as-data", rec, "the server closed the connection after %d of %d body bytes (%s) and Exchange returned the first %d of %d data bytes without error", sc.CutAt, len(sc.Body), sc.Framing, len(data), len(sc.Payload))
		} else {
			res.Violatef("c11:response:server-cut-body-accepted", rec, "the server closed the connection after %d of %d body bytes (%s) and Exchange returned %d bytes without error", sc.CutAt, len(sc.Body), sc.Framing, len(data))
		}
	case len(sc.Body) > h.L:
		if truncated {
			res.Violatef("c11:response:truncated-data-returned", rec, "a %d-byte body (limit %d) was returned as its first %d of %d data bytes without error", len(sc.Body), h.L, len(data), len(sc.Payload))
		} else {
			res.Violatef("c11:response:over-limit-accepted", rec, "a %d-byte body (limit %d) was accepted: %d bytes returned without error", len(sc.Body), h.L, len(data))
		}
	default:
		switch {
		case sc.Payload == nil:
		case bytes.Equal(data, sc.Payload):
			res.Obs("resp:"+rmode+":within-limit-faithful", 1)
		case truncated:
			res.Violatef("c11:response:truncated-data-returned", rec, "a complete %d-byte body within the limit was returned as its first %d of %d data bytes without error", len(sc.Body), len(data), len(sc.Payload))
		default:
			res.Violatef("c11:response:data-mismatch", rec, "a complete %d-byte body within the limit came back as %d bytes that are not the %d bytes sent (%s vs %s)", len(sc.Body), len(data), len(sc.Payload), c11cHexPrefix(data), c11cHexPrefix(sc.Payload))
		}
	}
}

func c11cPoll(r *vlib.Rand) []byte {
	switch r.Intn(10) {
	case 0:
		return r.Bytes(r.Range(1, 3))
	case 1:
		return r.Bytes(r.Range(4000, 20000))
	case 2:
		// the shape of a real poll, with PRNG offer text
		req := &messages.ClientPollRequest{Offer: string(c11cSmallAnswer(r)), NAT: "unknown"}
		b, _ := req.EncodeClientPollRequest()
		return b
	case 3:
		// bytes that are awkward in paths and bodies
		b := r.Bytes(r.Range(10, 300))
		for i := range b {
			b[i] = "/?#%+ \x00\xff\r\n"[int(b[i])%10]
		}
		return b
	default:
		return r.Bytes(r.Range(16, 1500))
	}
}

func TestVerifC11c(t *testing.T) {
	res := vlib.NewResult("C11", "inpkg-clientlib-c11c", "PRNG broker x AMP-cache x front configurations (stratified over rendezvous method, front unset / host / host:port, http / https; broker ports, paths, IP literals) built by the client's own constructor on a transport whose connections are redirected to a recording front listener; per configuration PRNG polls through Exchange and one offer through Negotiate, plus a rotating selection from a fixed table of scripted responses (15 non-200 codes, bodies of L-1..3L bytes plain / armored with exact lengths and element boundaries at the limit, bodies cut short); non-trivial = an exchange whose request reached the front, distinct by configuration, response class and poll")
	defer res.Finish()
	log.SetOutput(ioutil.Discard)
	L := int(readLimit)
	if L < 100000 || L > 102400 {
		res.Violatef("c11:response:limit-is-not-100KB", map[string]interface{}{"case": "const", "readLimit": L}, "readLimit is %d: not a 100 KB limit", L)
	}

	front, err := c11cNewFront()
	if err != nil {
		res.Require(false, "front listener could not be started: "+err.Error())
		return
	}
	defer front.close()
	tr, isT := http.DefaultTransport.(*http.Transport)
	if !isT {
		res.Require(false, "http.DefaultTransport is not an *http.Transport")
		return
	}
	// before its first use: every connection goes to the front listener
	tr.DialContext = front.dial
	tr.TLSClientConfig = &tls.Config{InsecureSkipVerify: true}
	h := &c11cHarness{res: res, front: front, tr: tr, L: L}

	root := vlib.NewRand(vlib.Seed())
	httpTab, ampTab := c11cBuildScripts(root.Split("c11c-scripts"), L)
	// the harness's own armor must be what the real decoder accepts
	for _, sc := range ampTab {
		if !strings.HasPrefix(sc.Class, "armor-own:S=L-1") {
			continue
		}
		dec, err := amp.NewArmorDecoder(bytes.NewReader(sc.Body))
		var got []byte
		if err == nil {
			got, err = ioutil.ReadAll(dec)
		}
		res.Require(err == nil && bytes.Equal(got, sc.Payload) && len(sc.Body) == L-1, "harness armor "+sc.Class+" does not decode to its payload")
	}
	res.Note("response_classes_http", len(httpTab))
	res.Note("response_classes_amp", len(ampTab))

	nCfg := vlib.Scale(144, 1440)
	nShape := vlib.Scale(2, 3)
	nResp := vlib.Scale(5, 12)
	rot := map[string]int{}
	rcfg := root.Split("c11c-config")
	nats := []string{"unknown", "restricted", "unrestricted"}

	for i := 0; i < nCfg && !h.dead; i++ {
		r := rcfg.SplitN("cfg", i)
		cfg := c11cGenConfig(r, i)
		e, err := c11cExpectOf(cfg)
		if err != nil {
			res.Require(false, fmt.Sprintf("cfg/%d: expectation could not be computed: %v", i, err))
			continue
		}
		ftag := "front=0"
		if cfg.Front != "" {
			ftag = "front=1"
		}
		// ---- build the way the client does
		var bc *BrokerChannel
		if cfg.Mode == "amp-direct" {
			// newBrokerChannelFromConfig never builds the cache-less AMP
			// method; the type documents it ("optionally over an AMP cache")
			rv, err := newAMPCacheRendezvous(cfg.Broker, "", cfg.Front, createBrokerTransport())
			if err != nil {
				res.Require(false, fmt.Sprintf("cfg/%d: newAMPCacheRendezvous: %v", i, err))
				continue
			}
			bc = &BrokerChannel{Rendezvous: rv, keepLocalAddresses: true, natType: "unknown", BridgeFingerprint: cfg.Fingerprint}
		} else {
			bc, err = newBrokerChannelFromConfig(ClientConfig{BrokerURL: cfg.Broker, AmpCacheURL: cfg.Cache, FrontDomain: cfg.Front, KeepLocalAddresses: true, UTLSClientID: cfg.UTLS, BridgeFingerprint: cfg.Fingerprint})
			if err != nil {
				res.Require(false, fmt.Sprintf("cfg/%d: newBrokerChannelFromConfig: %v", i, err))
				continue
			}
		}
		rmode := "amp"
		var cur *http.Transport // the transport of this configuration, when it can be reached
		switch rv := bc.Rendezvous.(type) {
		case *httpRendezvous:
			rmode = "http"
			res.Require(cfg.Mode == "http", fmt.Sprintf("cfg/%d: %s configuration built an httpRendezvous", i, cfg.Mode))
			cur = h.redirect(rv.transport)
		case *ampCacheRendezvous:
			res.Require(cfg.Mode != "http", fmt.Sprintf("cfg/%d: http configuration built an ampCacheRendezvous", i))
			cur = h.redirect(rv.transport)
		default:
			res.Require(false, fmt.Sprintf("cfg/%d: unknown rendezvous type %T", i, bc.Rendezvous))
			continue
		}
		tab := ampTab
		if rmode == "http" {
			tab = httpTab
		}
		useTLS := e.Scheme == "https"
		if e.Rejected == "" {
			res.Obs("cfg:"+cfg.Mode+":"+ftag+":"+e.Scheme, 1)
		}
		res.Obs("cfg:broker-port:"+cfg.BrokerPort, 1)
		res.Obs("cfg:broker-path:"+cfg.BrokerPath, 1)
		if cfg.UTLS != "" {
			res.Obs("cfg:utls-configured-plain-http", 1)
		}
		if _, p := c11cHostPort(cfg.Front); p != "" {
			res.Obs("cfg:front-with-port", 1)
		}
		if i < 6 {
			res.Sample(6, map[string]interface{}{"case": fmt.Sprintf("cfg/%d", i), "mode": cfg.Mode, "broker": cfg.Broker, "cache": cfg.Cache, "front": cfg.Front, "expect_dial": e.Authority, "expect_host_header": e.URLHost, "expect_path_prefix": e.PathPrefix, "rejected": e.Rejected})
		}

		if e.Rejected != "" {
			// amp.CacheURL documents that it refuses this pair: all the
			// property can say is that nothing may leave for the wrong place.
			poll := c11cPoll(r.Split("poll-rejected"))
			caseID := fmt.Sprintf("cfg/%d/rejected", i)
			var data []byte
			var xerr error
			rec := h.record(cfg, caseID, nil, poll, nil, nil, nil)
			seen, ok := h.run(caseID, nil, useTLS, rec, func() { data, xerr = bc.Rendezvous.Exchange(poll) })
			res.Eval(1)
			if !ok {
				continue
			}
			rec = h.record(cfg, caseID, nil, poll, seen, data, xerr)
			if xerr != nil && len(seen.dials) == 0 && len(seen.reqs) == 0 {
				res.Obs("cfg:rejected-by-cacheurl:error-and-nothing-sent", 1)
			} else if cfg.Front != "" {
				for _, a := range seen.dials {
					dh, _, _ := net.SplitHostPort(a)
					fh, _ := c11cHostPort(cfg.Front)
					if !strings.EqualFold(dh, fh) {
						res.Violatef("c11:fronting:dialled-unexpected-address", rec, "front %q is configured but the client asked to connect to %q", cfg.Front, a)
					}
				}
				res.Obs("cfg:rejected-by-cacheurl:something-sent", 1)
			} else {
				res.Obs("cfg:rejected-by-cacheurl:something-sent", 1)
			}
			if cur != nil {
				cur.CloseIdleConnections()
			}
			continue
		}

		// ---- (1)+(2): PRNG polls through Exchange, answered 200 with a small body
		for j := 0; j < nShape && !h.dead; j++ {
			rr := r.SplitN("shape", j)
			poll := c11cPoll(rr)
			payload := c11cSmallAnswer(rr)
			sc := &c11cScript{Class: "ok-small", Status: 200, Body: payload, Payload: payload, Framing: "cl"}
			if rmode == "amp" {
				sc.Body = c11cArmorReal(payload)
			}
			if j%2 == 1 {
				sc.Framing = "chunked"
				sc.Class = "ok-small-chunked"
			}
			caseID := fmt.Sprintf("cfg/%d/shape/%d", i, j)
			var data []byte
			var xerr error
			rec := h.record(cfg, caseID, sc, poll, nil, nil, nil)
			seen, ok := h.run(caseID, sc, useTLS, rec, func() { data, xerr = bc.Rendezvous.Exchange(poll) })
			res.Eval(1)
			if !ok {
				continue
			}
			rec = h.record(cfg, caseID, sc, poll, seen, data, xerr)
			_, good := h.judgeRequests(cfg, e, seen, poll, rec)
			h.judgeResponse(rmode, sc, data, xerr, len(seen.reqs), rec)
			if len(seen.reqs) > 0 {
				res.Distinct(cfg.key() + "|shape|" + c11cHash(poll))
				if good && xerr == nil {
					res.Obs("exchange-ok:"+cfg.Mode+":"+ftag+":"+e.Scheme, 1)
				}
			}
		}

		// ---- the same through BrokerChannel.Negotiate with an offer
		if !h.dead {
			rr := r.Split("negotiate")
			offerSDP := "v=0\r\no=- " + strconv.Itoa(rr.Intn(1<<30)) + " 2 IN IP4 0.0.0.0\r\ns=-\r\nt=0 0\r\na=group:BUNDLE 0\r\nm=application 9 UDP/DTLS/SCTP webrtc-datachannel\r\nc=IN IP4 0.0.0.0\r\na=ice-ufrag:" + hex.EncodeToString(rr.Bytes(4)) + "\r\na=ice-pwd:" + hex.EncodeToString(rr.Bytes(12)) + "\r\na=note:\"<&>  " + hex.EncodeToString(rr.Bytes(rr.Intn(400))) + "\r\n"
			answerSDP := "v=0\r\no=- " + strconv.Itoa(rr.Intn(1<<30)) + " 2 IN IP4 0.0.0.0\r\ns=-\r\nt=0 0\r\na=ice-ufrag:" + hex.EncodeToString(rr.Bytes(4)) + "\r\na=x:" + hex.EncodeToString(rr.Bytes(rr.Intn(2000))) + "\r\n"
			ans, _ := util.SerializeSessionDescription(&webrtc.SessionDescription{Type: webrtc.SDPTypeAnswer, SDP: answerSDP})
			payload, _ := (&messages.ClientPollResponse{Answer: ans}).EncodePollResponse()
			sc := &c11cScript{Class: "ok-answer", Status: 200, Body: payload, Payload: payload, Framing: "cl"}
			if rmode == "amp" {
				sc.Body = c11cArmorReal(payload)
			}
			natType := nats[rr.Intn(3)]
			bc.SetNATType(natType)
			caseID := fmt.Sprintf("cfg/%d/negotiate", i)
			var got *webrtc.SessionDescription
			var xerr error
			offer := &webrtc.SessionDescription{Type: webrtc.SDPTypeOffer, SDP: offerSDP}
			rec := h.record(cfg, caseID, sc, nil, nil, nil, nil)
			rec["offer_sdp"] = offerSDP
			seen, ok := h.run(caseID, sc, useTLS, rec, func() { got, xerr = bc.Negotiate(offer) })
			res.Eval(1)
			if ok {
				rec = h.record(cfg, caseID, sc, nil, seen, nil, xerr)
				rec["offer_sdp"] = offerSDP
				rec["nat"] = natType
				carried, good := h.judgeRequests(cfg, e, seen, nil, rec)
				for _, c := range carried {
					wantFP := cfg.Fingerprint
					if wantFP == "" {
						wantFP = "2B280B23E1107BB62ABFC40DDCC8824814F80A72" // documented default bridge
					}
					pr, derr := messages.DecodeClientPollRequest(c)
					var sd *webrtc.SessionDescription
					if derr == nil {
						sd, derr = util.DeserializeSessionDescription(pr.Offer)
					}
					if derr != nil || sd == nil || sd.SDP != offerSDP || sd.Type != webrtc.SDPTypeOffer || pr.NAT != natType || pr.Fingerprint != wantFP {
						good = false
						rec["carried_hex"] = c11cHexPrefix(c)
						res.Violatef("c11:request:poll-does-not-decode-to-offer", rec, "the poll that reached the front does not decode to the offer / NAT type %q / fingerprint %q handed to Negotiate (decode error: %v)", natType, wantFP, derr)
					} else {
						res.Obs("poll-carried:negotiate:"+cfg.Mode, 1)
					}
				}
				if len(seen.reqs) > 0 {
					res.Distinct(cfg.key() + "|negotiate|" + c11cHash([]byte(offerSDP)))
					if xerr == nil && got != nil && (got.SDP != answerSDP || got.Type != webrtc.SDPTypeAnswer) {
						res.Violatef("c11:response:data-mismatch", rec, "Negotiate returned an answer that is not the one the front sent (%d vs %d bytes of SDP)", len(got.SDP), len(answerSDP))
					} else if xerr == nil && got != nil && good {
						res.Obs("negotiate-ok:"+cfg.Mode, 1)
					} else if xerr != nil {
						res.Obs("negotiate-error:"+cfg.Mode, 1)
					}
				}
			}
		}

		// ---- (3): scripted responses
		for j := 0; j < nResp && !h.dead; j++ {
			sc := tab[rot[rmode]%len(tab)]
			rot[rmode]++
			poll := r.SplitN("resp-poll", j).Bytes(r.SplitN("resp-len", j).Range(8, 400))
			caseID := fmt.Sprintf("cfg/%d/resp/%d:%s", i, j, sc.Class)
			var data []byte
			var xerr error
			rec := h.record(cfg, caseID, sc, poll, nil, nil, nil)
			seen, ok := h.run(caseID, sc, useTLS, rec, func() { data, xerr = bc.Rendezvous.Exchange(poll) })
			res.Eval(1)
			if !ok {
				continue
			}
			rec = h.record(cfg, caseID, sc, poll, seen, data, xerr)
			h.judgeRequests(cfg, e, seen, poll, rec)
			h.judgeResponse(rmode, sc, data, xerr, len(seen.reqs), rec)
			if len(seen.reqs) > 0 {
				res.Distinct(cfg.key() + "|resp|" + sc.Class + "|" + c11cHash(poll))
			}
			if sc.Class == "size=L/cl" || strings.HasPrefix(sc.Class, "armor-own:S=L:small/cl") {
				res.Note("body_of_exactly_the_limit:"+rmode, map[string]interface{}{"accepted": xerr == nil, "returned_len": len(data)})
			}
		}
		if cur != nil {
			cur.CloseIdleConnections()
		}
	}

	// ---- minimum coverage
	if h.dead {
		return
	}
	for _, m := range []string{"http", "amp-cache", "amp-direct"} {
		for _, f := range []string{"front=0", "front=1"} {
			for _, s := range []string{"http", "https"} {
				res.RequireObs("req:"+m+":"+f+":"+s, 10)
				res.RequireObs("exchange-ok:"+m+":"+f+":"+s, 3)
			}
			res.RequireObs("host-header-ok:"+m+":"+f, 20)
		}
		res.RequireObs("dial:fronted:"+m, 10)
		res.RequireObs("dial:direct:"+m, 5)
		res.RequireObs("poll-carried:"+m, 50)
		res.RequireObs("poll-carried:negotiate:"+m, 5)
		res.RequireObs("negotiate-ok:"+m, 5)
	}
	res.RequireObs("sni:fronted", 20)
	res.RequireObs("sni:direct", 10)
	res.RequireObs("cfg:front-with-port", 10)
	res.RequireObs("cfg:broker-port:default", 3)
	res.RequireObs("cfg:broker-port:other", 3)
	res.RequireObs("cfg:broker-path:/sub/", 1)
	res.RequireObs("cfg:broker-path:/sub", 1)
	res.RequireObs("cfg:broker-path:", 1)
	res.RequireObs("cfg:rejected-by-cacheurl:error-and-nothing-sent", 1)
	for _, sc := range httpTab {
		res.RequireObs("resp:http:"+sc.Class, 1)
	}
	for _, sc := range ampTab {
		res.RequireObs("resp:amp:"+sc.Class, 1)
	}
	// the boundary must have been seen from both sides
	res.RequireObs("resp:http:size=L-1/cl:ok", 1)
	res.RequireObs("resp:http:size=L-1/chunked:ok", 1)
	res.RequireObs("resp:http:size=L+1/cl:error", 1)
	res.RequireObs("resp:http:size=L+1/chunked:error", 1)
	res.RequireObs("resp:amp:armor-own:S=L-1:small/cl:ok", 1)
	res.RequireObs("resp:amp:armor-own:S=L-1:large/cl:ok", 1)
	res.RequireObs("resp:amp:armor-own:S=L+1:small/cl:error", 1)
	res.RequireObs("resp:amp:armor-own:element-boundary@L+1:error", 1)
	res.RequireObs("resp:amp:armor-own:element-boundary@L:error", 1)
	res.RequireObs("resp:amp:armor-real:P=60000:ok", 1)
	res.RequireObs("resp:amp:armor-real:P=100001:error", 1)
	res.RequireObs("resp:http:within-limit-faithful", 5)
	res.RequireObs("resp:amp:within-limit-faithful", 5)
	res.Require(len(ampTab) >= 60, fmt.Sprintf("AMP response table has only %d classes (an armor of exact length could not be built)", len(ampTab)))

	// every connection the transport opened is one the recorder saw
	for k := 0; k < 100 && atomic.LoadInt64(&front.accepted) < atomic.LoadInt64(&front.dialled); k++ {
		time.Sleep(50 * time.Millisecond)
	}
	front.mu.Lock()
	stray := front.stray
	front.mu.Unlock()
	res.Note("tcp_connections_accepted", atomic.LoadInt64(&front.accepted))
	res.Note("dials_recorded", atomic.LoadInt64(&front.dialled))
	nAcc, nDial := atomic.LoadInt64(&front.accepted), atomic.LoadInt64(&front.dialled)
	res.Require(nAcc == nDial, fmt.Sprintf("front accepted %d connections but %d dials were recorded", nAcc, nDial))
	res.Require(stray == 0, fmt.Sprintf("%d dials / handshakes / requests happened outside any observed exchange", stray))
}
