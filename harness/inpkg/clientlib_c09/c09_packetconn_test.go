// C09 - the framing as its user on the client sees it: the packet connection
// that client/lib builds over a stream (encapsulationPacketConn). Sequences of
// data chunks and paddings written with the real encoder are read back through
// ReadFrom under fragmenting readers and with read buffers smaller than,
// equal to and larger than the chunks: every call returns the next chunk's
// first min(len(chunk), len(buffer)) bytes - an oversized chunk is cut like
// any datagram, and the chunk after it is still the next one - and the stream
// ends with io.EOF at a chunk boundary. WriteTo's output is decoded by an
// independent reference decoder.
package snowflake_client

import (
	"bytes"
	"fmt"
	"io"
	"testing"

	"git.torproject.org/pluggable-transports/snowflake.git/v2/common/encapsulation"
	"verif/vlib"
)

type c09Stream struct {
	r    io.Reader
	w    bytes.Buffer
	mode string
	rr   *vlib.Rand
	eof  bool
}

func (s *c09Stream) Read(p []byte) (int, error) {
	if len(p) == 0 {
		return 0, nil
	}
	switch s.mode {
	case "one-byte":
		p = p[:1]
	case "short":
		if n := s.rr.Range(1, 7); n < len(p) {
			p = p[:n]
		}
	case "zero-reads":
		if s.rr.Chance(1, 3) {
			return 0, nil
		}
		if n := s.rr.Range(1, 300); n < len(p) {
			p = p[:n]
		}
	}
	return s.r.Read(p)
}
func (s *c09Stream) Write(p []byte) (int, error) { return s.w.Write(p) }
func (s *c09Stream) Close() error                { return nil }

// c09RefDecode: an independent decoder of the framing (prefix bytes: bit 7 =
// data, bit 6 = continuation in the first byte; bit 7 = continuation in the
// following ones), used for WriteTo's output.
func c09RefDecode(b []byte) (chunks [][]byte, ok bool) {
	for len(b) > 0 {
		first := b[0]
		b = b[1:]
		n := int(first & 0x3f)
		more := first&0x40 != 0
		for k := 0; more; k++ {
			if len(b) == 0 || k >= 2 {
				return chunks, false
			}
			c := b[0]
			b = b[1:]
			n = n<<7 | int(c&0x7f)
			more = c&0x80 != 0
		}
		if n > len(b) {
			return chunks, false
		}
		if first&0x80 != 0 {
			chunks = append(chunks, b[:n])
		}
		b = b[n:]
	}
	return chunks, true
}

var c09Lens = []int{0, 1, 2, 63, 64, 65, 1199, 1200, 1499, 1500, 1501, 2047, 2048, 2049, 3000, 8191, 8192, 8193, 16383, 65535, 100000}
var c09Bufs = []int{1, 64, 1200, 1500, 2048, 8192, 65536, 1 << 20}

func TestVerifC09PacketConn(t *testing.T) {
	res := vlib.NewResult("C09", "inpkg-c09-client-packetconn", "the client's packet connection over a stream (newEncapsulationPacketConn): PRNG sequences of data chunks (lengths on the prefix and buffer boundaries, 0..100000) and paddings written with the real encoder are read back with ReadFrom under 4 reader shapes and 8 read-buffer sizes; each call must return the next chunk cut to the buffer, then io.EOF; WriteTo's bytes go through an independent decoder; non-trivial = sequence with a chunk larger than the read buffer followed by further chunks, distinct by (buffer, reader, sequence)")
	defer res.Finish()
	root := vlib.NewRand(vlib.Seed()).Split("c09pc")
	n := vlib.Scale(1500, 20000)
	for i := 0; i < n; i++ {
		r := root.SplitN("case", i)
		var enc bytes.Buffer
		var want [][]byte
		var desc []string
		k := r.Range(1, 12)
		for j := 0; j < k; j++ {
			if r.Chance(1, 4) {
				pn := r.PickInt([]int{0, 1, 63, 64, 300, 8192, 20000})
				encapsulation.WritePadding(&enc, pn)
				desc = append(desc, fmt.Sprintf("pad%d", pn))
				continue
			}
			ln := r.PickInt(c09Lens)
			if r.Chance(1, 3) {
				ln = r.Range(0, 4000)
			}
			d := r.Bytes(ln)
			encapsulation.WriteData(&enc, d)
			want = append(want, d)
			desc = append(desc, fmt.Sprintf("data%d", ln))
		}
		bufSize := r.PickInt(c09Bufs)
		mode := r.PickString([]string{"whole", "one-byte", "short", "zero-reads"})
		if mode == "one-byte" && enc.Len() > 40000 {
			mode = "short"
		}
		rec := map[string]interface{}{"case": fmt.Sprintf("packetconn/%d", i), "sequence": desc, "read_buffer": bufSize, "reader": mode}
		s := &c09Stream{r: bytes.NewReader(enc.Bytes()), mode: mode, rr: r.Split("reader")}
		pc := newEncapsulationPacketConn(nil, nil, s)
		buf := make([]byte, bufSize)
		res.Eval(1)
		bad := false
		oversizedThenMore := false
		if res.Guard("panic:encapsulationPacketConn.ReadFrom", rec, func() {
			for j, w := range want {
				nn, _, err := pc.ReadFrom(buf)
				exp := w
				if len(exp) > bufSize {
					exp = exp[:bufSize]
					if j+1 < len(want) {
						oversizedThenMore = true
					}
				}
				if err != nil {
					res.Violatef("packetconn:error-before-end", rec, "ReadFrom %d of %d returned error %v (chunk of %d bytes, buffer %d)", j+1, len(want), err, len(w), bufSize)
					bad = true
					return
				}
				if nn != len(exp) || !bytes.Equal(buf[:nn], exp) {
					res.Violatef("packetconn:wrong-packet", rec, "ReadFrom %d of %d returned %d bytes, want the %d-byte chunk cut to %d bytes (equal content: %v)", j+1, len(want), nn, len(w), len(exp), nn == len(exp))
					bad = true
					return
				}
			}
			nn, _, err := pc.ReadFrom(buf)
			if err != io.EOF || nn != 0 {
				res.Violatef("packetconn:no-eof-at-end", rec, "after the last chunk ReadFrom returned (%d, %v), want (0, EOF)", nn, err)
				bad = true
			}
		}) {
			continue
		}
		if !bad {
			res.Obs("packetconn_sequences_read_back", 1)
			if oversizedThenMore {
				res.Obs("packetconn_sequences_with_oversized_chunk_followed_by_more", 1)
				res.Distinct(fmt.Sprintf("%d/%s/%x", bufSize, mode, r.Uint64()))
			}
		}
		// the other direction: what WriteTo puts on the stream
		if i%4 == 0 {
			s2 := &c09Stream{r: bytes.NewReader(nil)}
			pc2 := newEncapsulationPacketConn(nil, nil, s2)
			okw := true
			for _, w := range want {
				if nn, err := pc2.WriteTo(w, nil); err != nil || nn != len(w) {
					res.Violatef("packetconn:writeto-failed", rec, "WriteTo of %d bytes returned (%d, %v)", len(w), nn, err)
					okw = false
					break
				}
			}
			if okw {
				got, ok := c09RefDecode(s2.w.Bytes())
				same := ok && len(got) == len(want)
				for j := 0; same && j < len(want); j++ {
					same = bytes.Equal(got[j], want[j])
				}
				if !same {
					res.Violatef("packetconn:writeto-not-decodable", rec, "the reference decoder reads %d chunks (well-formed=%v) from what WriteTo wrote for %d packets", len(got), ok, len(want))
				}
				res.Obs("packetconn_writeto_sequences_decoded", 1)
			}
		}
	}
	res.RequireObs("packetconn_sequences_read_back", int64(n*8/10))
	res.RequireObs("packetconn_sequences_with_oversized_chunk_followed_by_more", int64(n/20))
}
