// C13 (in-package part, proxy/lib) — remoteIPFromSDP is total.
// Engine: inpkg (remoteIPFromSDP is unexported), -race. Language level go 1.13.
//
// Oracle: for arbitrary and SDP-like text (generated descriptions with
// candidates and c= lines, line-level mutations, an enumeration of every SDP
// line type with 0-3 odd fields at every position, c= lines with hostile
// address tokens, every truncation point, arbitrary bytes) remoteIPFromSDP
// returns a net.IP or nil and never panics; a non-nil result is a 4- or
// 16-byte address that textually occurs in the input (some prefix of a maximal
// run over [0-9A-Fa-f:.] parses to it).
package snowflake_proxy

import (
	"fmt"
	"hash/fnv"
	"io/ioutil"
	"log"
	"net"
	"regexp"
	"strconv"
	"strings"
	"testing"

	"github.com/pion/sdp/v3"
	"verif/vlib"
)

var vc13FuncSuffix = regexp.MustCompile(`\.func\d+(\.\d+)*`)

func vc13PanicSite(stack string) string {
	lines := strings.Split(stack, "\n")
	seenPanic := false
	for _, ln := range lines {
		if strings.HasPrefix(ln, "\t") || ln == "" {
			continue
		}
		if strings.HasPrefix(ln, "panic(") {
			seenPanic = true
			continue
		}
		if !seenPanic || strings.HasPrefix(ln, "runtime.") {
			continue
		}
		fn := ln
		if i := strings.LastIndexByte(fn, '('); i > 0 {
			fn = fn[:i]
		}
		parts := strings.Split(fn, "/")
		if len(parts) > 2 {
			parts = parts[len(parts)-2:]
		}
		return vc13FuncSuffix.ReplaceAllString(strings.Join(parts, "/"), ".func")
	}
	return "unknown-site"
}

func vc13Guard(res *vlib.Result, prefix string, replay interface{}, f func()) (panicked bool) {
	defer func() {
		if e := recover(); e != nil {
			panicked = true
			st := vlib.ShortStack()
			res.Violate(prefix+":"+vc13PanicSite(st), fmt.Sprintf("panic: %v\n%s", e, st), replay)
		}
	}()
	f()
	return false
}

type vc13Rec struct {
	Case   string `json:"case"`
	Input  string `json:"input_go_quoted"`
	Len    int    `json:"input_len"`
	Desc   string `json:"desc,omitempty"`
	Result string `json:"result,omitempty"`
}

func vc13Bounded(s string) string {
	if len(s) > 3000 {
		return strconv.Quote(s[:3000]) + "…"
	}
	return strconv.Quote(s)
}

func vc13AddrChar(c byte) bool {
	return c >= '0' && c <= '9' || c >= 'a' && c <= 'f' || c >= 'A' && c <= 'F' || c == ':' || c == '.'
}

// vc13Occurs: some prefix of a maximal run over [0-9A-Fa-f:.] in s parses to ip.
func vc13Occurs(s string, ip net.IP) bool {
	i := 0
	for i < len(s) {
		if !vc13AddrChar(s[i]) {
			i++
			continue
		}
		j := i
		for j < len(s) && vc13AddrChar(s[j]) {
			j++
		}
		run := s[i:j]
		if len(run) > 80 {
			run = run[:80]
		}
		for l := 2; l <= len(run); l++ {
			if p := net.ParseIP(run[:l]); p != nil && p.Equal(ip) {
				return true
			}
		}
		i = j
	}
	return false
}

func vc13Parsable(in string) (ok bool, interesting bool) {
	defer func() {
		if e := recover(); e != nil {
			ok, interesting = false, false
		}
	}()
	var d sdp.SessionDescription
	if err := d.Unmarshal([]byte(in)); err != nil {
		return false, false
	}
	if d.ConnectionInformation != nil {
		interesting = true
	}
	for _, m := range d.MediaDescriptions {
		if m.ConnectionInformation != nil {
			interesting = true
		}
		for _, a := range m.Attributes {
			if a.IsICECandidate() {
				interesting = true
			}
		}
	}
	return true, interesting
}

func vc13Hash(s string) string {
	h := fnv.New64a()
	h.Write([]byte(s))
	return fmt.Sprintf("%x", h.Sum64())
}

func vc13Check(res *vlib.Result, in, caseID, desc string) {
	res.Eval(1)
	rec := vc13Rec{Case: caseID, Input: vc13Bounded(in), Len: len(in), Desc: desc}
	var ip net.IP
	if vc13Guard(res, "panic:remoteIPFromSDP", rec, func() { ip = remoteIPFromSDP(in) }) {
		res.Obs("panics", 1)
		return
	}
	ok, interesting := vc13Parsable(in)
	if ok {
		res.Obs("parsable_inputs", 1)
		if interesting {
			res.Distinct(vc13Hash(in))
		}
	} else {
		res.Obs("unparsable_inputs", 1)
	}
	if ip == nil {
		res.Obs("result_nil", 1)
		return
	}
	res.Obs("result_address", 1)
	rec.Result = ip.String()
	if len(ip) != net.IPv4len && len(ip) != net.IPv6len {
		res.Violatef("remoteip-result-not-an-address", rec, "remoteIPFromSDP returned a net.IP of %d bytes", len(ip))
		return
	}
	if !ok {
		res.Obs("result_address_from_text_the_sdp_parser_rejects", 1) // not judged: the property only asks for value-or-nil
	}
	if !vc13Occurs(in, ip) {
		res.Violatef("remoteip-result-not-in-input", rec, "remoteIPFromSDP returned %s, which does not occur in the input", ip)
	}
}

// ---- generators -------------------------------------------------------------

var vc13Addrs = []string{
	"1.2.3.4", "8.8.8.8", "203.0.113.7", "192.0.2.2", "224.2.1.1", "255.255.255.255",
	"10.0.0.1", "172.16.0.1", "172.31.255.255", "172.32.0.0", "192.168.0.1", "100.64.0.0", "100.128.0.0", "169.254.1.1", "127.0.0.1", "0.0.0.0",
	"2001:db8::1", "2620:0:2d0:200::7", "FF15::101", "ff15::101", "fd00::2", "fc00::", "fe00::", "fe80::1", "::1", "::",
	"::ffff:10.0.0.1", "::ffff:8.8.8.8", "::ffff:0:0", "::ffff:808:808", "0:0:0:0:0:ffff:c0a8:0001", "64:ff9b::a00:1",
	"example.com", "3a4cf7db-69e3-f117-081d-a266da0e26c9.local", "010.0.0.1", "10.0.0.256", "1.2.3", "1.2.3.4.5", "fd00::1%eth0", "[2001:db8::1]", "12345::1", ":", ".", "...", "1...2", "::1:", "1.2.3.4:", "1.2.3.4:5",
}

var vc13CTails = []string{"", "/127", "/127/3", "/3", "/", "//", "/x", "/1/2/3", ":", ": ", " ", "  x"}

func vc13PickAddr(r *vlib.Rand) string {
	switch r.Intn(6) {
	case 0:
		b := r.Bytes(4)
		return fmt.Sprintf("%d.%d.%d.%d", b[0], b[1], b[2], b[3])
	case 1:
		b := r.Bytes(16)
		if r.Bool() {
			b[0] = byte(r.PickInt([]int{0xfb, 0xfc, 0xfd, 0xfe, 0x20}))
		}
		return net.IP(b).String()
	}
	return r.PickString(vc13Addrs)
}

func vc13Candidate(r *vlib.Rand) string {
	a := vc13PickAddr(r)
	switch r.Intn(10) {
	case 0:
		return "a=candidate:" + r.PickString([]string{"", "1", "1 1 udp 1 " + a, "1 1 udp 1 " + a + " 5 typ", "1 x udp 1 " + a + " 5 typ host", " 1 udp 1 " + a + " 5 typ host",
			"1 1 udp 1 " + a + " 65536 typ host", "1 1 ssltcp 1 " + a + " 5 typ host", "1 1 udp 1 " + a + " 5 typ foo", "1 1 udp 1 " + a + " 5 typ srflx raddr 1.2.3.4", "1 1 udp 1 " + a + " 5 typ srflx raddr 1.2.3.4 rport x",
			"1\t1\tudp\t1\t" + a + "\t5\ttyp\thost", "1 1 udp 1 " + a + " 5 typ host\x00", "\xff\xfe"})
	case 1:
		return r.PickString([]string{"a=candidate", "a=end-of-candidates", "a=Candidate:1 1 udp 1 " + a + " 5 typ host", "a=mid:0"})
	}
	typ := r.PickString([]string{"host", "host", "srflx", "prflx", "relay"})
	tr := r.PickString([]string{"udp", "UDP", "tcp", "TCP"})
	s := fmt.Sprintf("a=candidate:%d %d %s %d %s %d typ %s", uint32(r.Uint64()), r.PickInt([]int{1, 2}), tr, uint32(r.Uint64()), a, r.Intn(65536), typ)
	if typ != "host" {
		s += fmt.Sprintf(" raddr %s rport %d", vc13PickAddr(r), r.Intn(65536))
	}
	if strings.EqualFold(tr, "tcp") {
		s += " tcptype " + r.PickString([]string{"active", "passive", "so"})
	}
	if r.Bool() {
		s += " generation 0 network-id 1 network-cost 50"
	}
	return s
}

func vc13CLine(r *vlib.Rand) string {
	a := vc13PickAddr(r)
	fam := "IP4"
	if strings.Contains(a, ":") != r.Chance(1, 10) {
		fam = "IP6"
	}
	return "c=IN " + fam + " " + a + r.PickString(vc13CTails[:4])
}

var vc13MediaAttrs = []string{"a=setup:actpass", "a=mid:0", "a=sendrecv", "a=sctp-port:5000", "a=ice-ufrag:aMAZ", "a=ice-pwd:jcHb08Jjgrazp2dzjdrvPPvV", "a=sctpmap:5000 webrtc-datachannel 1024",
	"a=rtcp:9 IN IP4 0.0.0.0", "a=x:c=IN IP4 6.6.6.6", "a=fingerprint:sha-256 53:F8:84:D9:3C:1F:A0:44:AA:D6:3C:65:80:D3:CB:6F:23:90:17:41:06:F9:9C:10:D8:48:4A:A8:B6:FA:14:A1"}

func vc13GenSDP(r *vlib.Rand) string {
	var L []string
	L = append(L, "v=0")
	L = append(L, fmt.Sprintf("o=- %d 2 IN %s", r.Uint64()>>1, r.PickString([]string{"IP4 0.0.0.0", "IP4 127.0.0.1", "IP4 9.9.9.9", "IP6 ::1", "IP6 2001:db8::9"})))
	L = append(L, "s=-")
	if r.Chance(1, 8) {
		L = append(L, "i=c=IN IP4 7.7.7.7")
	}
	if r.Chance(1, 4) {
		L = append(L, vc13CLine(r))
	}
	L = append(L, "t=0 0")
	if r.Chance(1, 10) {
		L = append(L, r.PickString([]string{"r=604800 3600 0 90000", "r=7 1"}))
	}
	for k := r.Intn(3); k > 0; k-- {
		L = append(L, r.PickString([]string{"a=group:BUNDLE data", "a=msid-semantic: WMS", "a=ice-lite", "a=candidate:1 1 udp 1 5.5.5.5 5 typ host"}))
	}
	nm := r.PickInt([]int{1, 1, 1, 2, 3, 0})
	for m := 0; m < nm; m++ {
		L = append(L, r.PickString([]string{"m=application 56688 DTLS/SCTP 5000", "m=application 9 UDP/DTLS/SCTP webrtc-datachannel", "m=audio 9 UDP/TLS/RTP/SAVPF 111"}))
		if r.Chance(2, 3) {
			L = append(L, vc13CLine(r))
		}
		n := r.Intn(10)
		for k := 0; k < n; k++ {
			if r.Chance(1, 2) {
				L = append(L, vc13Candidate(r))
			} else {
				L = append(L, r.PickString(vc13MediaAttrs))
			}
		}
		if r.Chance(1, 6) {
			L = append(L, vc13CLine(r)) // non-spec order, accepted by the parser
		}
	}
	nl := "\r\n"
	if r.Chance(1, 4) {
		nl = "\n"
	}
	return strings.Join(L, nl) + nl
}

var vc13LineTypes = []string{"v", "o", "s", "i", "u", "e", "p", "c", "b", "t", "r", "z", "k", "a", "m", "x", ""}
var vc13Tokens = []string{"", "0", "1", "-1", "x", "1d", "h", ":", "IN", "IP4", "99999999999999999999", "a:b", " "}

func vc13Mutate(r *vlib.Rand, s string) (string, string) {
	nl := "\r\n"
	if !strings.Contains(s, "\r\n") {
		nl = "\n"
	}
	lines := strings.Split(strings.TrimSuffix(s, nl), nl)
	i := r.Intn(len(lines))
	switch r.Intn(10) {
	case 0:
		f := strings.Split(lines[i], " ")
		lines[i] = strings.Join(f[:r.Intn(len(f))], " ")
		if lines[i] == "" {
			lines[i] = f[0]
			if len(lines[i]) > 2 {
				lines[i] = lines[i][:2]
			}
		}
		return strings.Join(lines, nl) + nl, "drop-fields"
	case 1:
		if len(lines[i]) >= 2 {
			lines[i] = lines[i][:2]
		}
		return strings.Join(lines, nl) + nl, "empty-value"
	case 2:
		if len(lines[i]) >= 2 {
			lines[i] = lines[i][:2] + r.PickString(vc13Tokens) + r.PickString([]string{"", " " + r.PickString(vc13Tokens)})
		}
		return strings.Join(lines, nl) + nl, "replace-value"
	case 3:
		lines = append(lines[:i+1], append([]string{lines[i]}, lines[i+1:]...)...)
		return strings.Join(lines, nl) + nl, "duplicate-line"
	case 4:
		lines = append(lines[:i], lines[i+1:]...)
		return strings.Join(lines, nl) + nl, "delete-line"
	case 5:
		k := r.Intn(len(lines))
		lines[i], lines[k] = lines[k], lines[i]
		return strings.Join(lines, nl) + nl, "swap-lines"
	case 6:
		nw := r.PickString(vc13LineTypes) + "=" + r.PickString(vc13Tokens) + r.PickString([]string{"", " " + r.PickString(vc13Tokens)})
		lines = append(lines[:i], append([]string{nw}, lines[i:]...)...)
		return strings.Join(lines, nl) + nl, "insert-line"
	case 7:
		return strings.Join(lines, nl), "no-final-newline"
	case 8:
		b := []byte(strings.Join(lines, nl) + nl)
		b[r.Intn(len(b))] ^= byte(1 << uint(r.Intn(8)))
		return string(b), "flip-byte"
	}
	return strings.Join(lines, "\r") + "\r", "cr-only"
}

// ---- the test ---------------------------------------------------------------

func TestVerifC13RemoteIP(t *testing.T) {
	res := vlib.NewResult("C13", "inpkg-proxylib-c13", "remoteIPFromSDP on PRNG descriptions (0-3 media sections, candidates of all types and c= lines with public/local/IPv4-mapped/odd addresses, CRLF and LF), line-level mutations, enumerated line types x odd fields x positions, c= lines with hostile address tokens, all truncation points, arbitrary strings; non-trivial = input the SDP parser accepts that has at least one candidate or c= line, distinct by input hash")
	defer res.Finish() // vlib records a panic outside any guard as violation "panic:outside-guard"
	oldOut := log.Writer()
	log.SetOutput(ioutil.Discard)
	defer log.SetOutput(oldOut)
	root := vlib.NewRand(vlib.Seed()).Split("c13-remoteip")

	// 0. the package's own examples still behave (sanity of the harness wiring)
	for i, ex := range []struct {
		in   string
		want string
	}{
		{"v=0\r\no=- 1 2 IN IP4 0.0.0.0\r\ns=-\r\nt=0 0\r\nm=application 56688 DTLS/SCTP 5000\r\nc=IN IP4 1.2.3.4\r\n", "1.2.3.4"},
		{"v=0\no=- 1 2 IN IP4 0.0.0.0\ns=-\nt=0 0\nm=application 56688 DTLS/SCTP 5000\nc=IN IP4 192.168.0.1\na=candidate:1 1 udp 1 192.168.0.1 5 typ host\na=candidate:2 1 udp 1 5.6.7.8 5 typ srflx raddr 192.168.0.1 rport 5\n", "5.6.7.8"},
	} {
		var ip net.IP
		in := ex.in
		if vc13Guard(res, "panic:remoteIPFromSDP", vc13Rec{Case: fmt.Sprintf("example/%d", i), Input: vc13Bounded(in), Len: len(in), Desc: "well-formed example"}, func() { ip = remoteIPFromSDP(in) }) {
			continue
		}
		res.Require(ip != nil && ip.String() == ex.want, fmt.Sprintf("wiring example %d returns %s", i, ex.want))
	}

	// 1. generated descriptions, and one mutation of each
	nGen := vlib.Scale(15000, 1000000)
	for i := 0; i < nGen; i++ {
		r := root.SplitN("gen", i)
		in := vc13GenSDP(r)
		vc13Check(res, in, fmt.Sprintf("gen/%d", i), "generated")
		res.Obs("generated_sdps", 1)
		mu, how := vc13Mutate(r, in)
		vc13Check(res, mu, fmt.Sprintf("mut/%d", i), "mutation "+how+" of gen/"+strconv.Itoa(i))
		res.Obs("mutated_sdps", 1)
		res.Obs("mutation_"+how, 1)
		if i < 2 {
			res.Sample(4, vc13Rec{Case: fmt.Sprintf("gen/%d", i), Input: vc13Bounded(in), Len: len(in)})
		}
	}

	// 2. enumeration: every line type with 0..3 odd fields at every position
	base := []string{"v=0", "o=- 1 2 IN IP4 0.0.0.0", "s=-", "t=0 0", "a=x", "m=application 9 UDP/DTLS/SCTP webrtc-datachannel", "c=IN IP4 1.2.3.4", "a=candidate:1 1 udp 1 192.168.0.1 5 typ host", "a=mid:0"}
	var values []string
	values = append(values, "")
	for _, a := range vc13Tokens {
		values = append(values, a)
		for _, b := range vc13Tokens {
			values = append(values, a+" "+b)
		}
	}
	for _, a := range []string{"0", "x", "1d", ""} {
		for _, b := range []string{"0", "x", "1d", ""} {
			for _, c := range []string{"0", "x", "1d", ""} {
				values = append(values, a+" "+b+" "+c)
			}
		}
	}
	n := 0
	for pos := 2; pos <= len(base); pos++ {
		for _, lt := range vc13LineTypes {
			for _, v := range values {
				var L []string
				L = append(L, base[:pos]...)
				L = append(L, lt+"="+v)
				L = append(L, base[pos:]...)
				nl := "\r\n"
				if n%3 == 0 {
					nl = "\n"
				}
				vc13Check(res, strings.Join(L, nl)+nl, fmt.Sprintf("enum/%d", n), fmt.Sprintf("line %q at position %d", lt+"="+v, pos))
				n++
				res.Obs("enumerated_line_insertions", 1)
			}
		}
	}

	// 3. c= lines with hostile address tokens, session and media level
	n = 0
	for _, fam := range []string{"IP4", "IP6", "IP7", "ip4"} {
		for _, a := range vc13Addrs {
			for _, tail := range vc13CTails {
				for _, nl := range []string{"\r\n", "\n"} {
					for _, level := range []string{"session", "media", "both"} {
						c := "c=IN " + fam + " " + a + tail
						L := []string{"v=0", "o=- 1 2 IN IP4 0.0.0.0", "s=-"}
						if level != "media" {
							L = append(L, c)
						}
						L = append(L, "t=0 0", "m=application 56688 DTLS/SCTP 5000")
						if level == "both" {
							L = append(L, "c=IN IP4 10.0.0.1")
						}
						if level == "media" {
							L = append(L, c)
						}
						L = append(L, "a=mid:0")
						vc13Check(res, strings.Join(L, nl)+nl, fmt.Sprintf("cline/%d", n), "connection line "+strconv.Quote(c)+" at "+level+" level")
						n++
						res.Obs("connection_line_cases", 1)
					}
				}
			}
		}
	}

	// 4. every truncation point of a few generated descriptions
	nTrunc := vlib.Scale(20, 400)
	for i := 0; i < nTrunc; i++ {
		r := root.SplitN("trunc", i)
		in := vc13GenSDP(r)
		if len(in) > 2000 {
			in = in[:2000]
		}
		for cut := 0; cut <= len(in); cut++ {
			vc13Check(res, in[:cut], fmt.Sprintf("trunc/%d/%d", i, cut), "prefix of a generated description")
			res.Obs("truncation_points", 1)
		}
	}

	// 5. arbitrary strings
	printable := []rune("abcXYZ019 :=/.-_%[]{}\"'\\<>&\t\u00a0é€𝄞\x00\x7f\r\n")
	nArb := vlib.Scale(6000, 400000)
	for i := 0; i < nArb; i++ {
		r := root.SplitN("arb", i)
		var in string
		switch r.Intn(7) {
		case 0:
			in = string(r.Bytes(r.Range(0, 200)))
		case 1:
			in = r.StringFrom(printable, r.Range(0, 120))
		case 2:
			in = "c=IN IP4 " + vc13PickAddr(r) + r.PickString(vc13CTails) + r.PickString([]string{"\r\n", "\n", ""})
		case 3:
			in = strings.Repeat(r.PickString([]string{"\r\n", "\n", "v=0\r\n", "a=candidate:", "c=IN IP4 ", "m=", "=", "r=\r\n", "c=IN IP6 ::1\n"}), r.Range(0, 50))
		case 4:
			k := r.Range(0, 12)
			for j := 0; j < k; j++ {
				in += r.PickString(vc13LineTypes) + "=" + r.PickString(vc13Tokens) + r.PickString([]string{"\r\n", "\n", "\r", ""})
			}
		case 5:
			in = "v=0\r\no=- 1 2 IN IP4 0.0.0.0\r\ns=-\r\nt=0 0\r\n" + r.StringFrom(printable, r.Range(0, 60)) + "\r\n"
		case 6:
			in = r.PickString([]string{"", " ", "\x00", "v", "v=", "v=0", "v=0\r", "v=0\r\n", "<html>", "null", "\xff\xfe", `{"type":"offer","sdp":"v=0\r\n"}`})
		}
		vc13Check(res, in, fmt.Sprintf("arb/%d", i), "arbitrary string")
		res.Obs("arbitrary_inputs", 1)
	}

	res.RequireObs("generated_sdps", int64(nGen))
	res.RequireObs("mutated_sdps", int64(nGen))
	res.RequireObs("enumerated_line_insertions", 10000)
	res.RequireObs("connection_line_cases", 5000)
	res.RequireObs("truncation_points", 2000)
	res.RequireObs("arbitrary_inputs", int64(nArb))
	res.RequireObs("parsable_inputs", 10000)
	res.RequireObs("unparsable_inputs", 5000)
	res.RequireObs("result_address", 3000)
	res.RequireObs("result_nil", 3000)
}
