// C13 (consequence clause): a crafted offer must not terminate the proxy. The
// proxy hands the deserialised offer to makePeerConnectionFromOffer (which
// calls pion's SetRemoteDescription); this monitor drives that function with
// hostile SDP texts under a panic guard. go 1.13 language level.
package snowflake_proxy

import (
	"fmt"
	"net"
	"strings"
	"testing"

	"github.com/pion/webrtc/v3"
	"verif/vlib"
)

var c13BaseOffer = "v=0\r\no=- 4358805017720277108 2 IN IP4 8.8.8.8\r\ns=-\r\nt=0 0\r\na=group:BUNDLE 0\r\na=msid-semantic: WMS\r\nm=application 56688 UDP/DTLS/SCTP webrtc-datachannel\r\nc=IN IP4 8.8.8.8\r\na=candidate:3769337065 1 udp 2122260223 8.8.8.8 56688 typ host generation 0 network-id 1 network-cost 50\r\na=ice-ufrag:aMAZ\r\na=ice-pwd:jcHb08Jjgrazp2dzjdrvPPvV\r\na=ice-options:trickle\r\na=fingerprint:sha-256 C8:88:EE:B9:E7:02:2E:21:37:ED:7A:D1:EB:2B:A3:15:A2:3B:5B:1C:3D:D4:D5:1F:06:CF:52:40:03:F8:DD:66\r\na=setup:actpass\r\na=mid:0\r\na=sctp-port:5000\r\na=max-message-size:262144\r\n"

// c13HostileSDP produces SDP-like texts: the base offer with one line of any
// type inserted with 0..3 odd fields, lines dropped, duplicated, truncated.
func c13HostileSDP(r *vlib.Rand, i int) (string, string) {
	lines := strings.Split(strings.TrimSuffix(c13BaseOffer, "\r\n"), "\r\n")
	types := []string{"v", "o", "s", "i", "u", "e", "p", "c", "b", "t", "r", "z", "k", "a", "m", "x", ""}
	fields := []string{"", "0", "1", "-1", "IN", "IP4", "IP6", "8.8.8.8", "99999999999999999999", "1d", "h", "0 0", "a b c", "::", "webrtc-datachannel", "UDP/DTLS/SCTP", "candidate:1 1 udp 1 1.2.3.4 5 typ host", "fingerprint:sha-256", "\x00", "é"}
	switch i % 6 {
	case 0, 1, 2: // insert one odd line at a PRNG position
		t := r.PickString(types)
		n := r.Intn(4)
		var fs []string
		for k := 0; k < n; k++ {
			fs = append(fs, r.PickString(fields))
		}
		ln := t + "=" + strings.Join(fs, " ")
		pos := r.Intn(len(lines) + 1)
		out := append(append(append([]string{}, lines[:pos]...), ln), lines[pos:]...)
		return strings.Join(out, "\r\n") + "\r\n", fmt.Sprintf("inserted %q at line %d", ln, pos)
	case 3: // replace the value of an existing line
		pos := r.Intn(len(lines))
		t := lines[pos][:2]
		n := r.Intn(3)
		var fs []string
		for k := 0; k < n; k++ {
			fs = append(fs, r.PickString(fields))
		}
		out := append([]string{}, lines...)
		out[pos] = t + strings.Join(fs, " ")
		return strings.Join(out, "\r\n") + "\r\n", fmt.Sprintf("line %d replaced by %q", pos, out[pos])
	case 4: // drop a line / truncate the text
		s := c13BaseOffer
		k := r.Intn(len(s))
		return s[:k], fmt.Sprintf("truncated after %d bytes", k)
	default: // arbitrary bytes
		return string(r.Bytes(r.Intn(200))), "arbitrary bytes"
	}
}

// c13StructuralOffers: offers whose SHAPE is unusual rather than one of their
// lines: media lines with an empty format list (pion accepts them), with a
// foreign or missing format, rejected (port 0) sections, several sections,
// credentials only at session level, no media section at all.
func c13StructuralOffers() []string {
	const sess = "v=0\r\no=- 4358805017720277108 2 IN IP4 8.8.8.8\r\ns=-\r\nt=0 0\r\n"
	const cred = "a=ice-ufrag:aMAZ\r\na=ice-pwd:jcHb08Jjgrazp2dzjdrvPPvV\r\na=fingerprint:sha-256 C8:88:EE:B9:E7:02:2E:21:37:ED:7A:D1:EB:2B:A3:15:A2:3B:5B:1C:3D:D4:D5:1F:06:CF:52:40:03:F8:DD:66\r\na=setup:actpass\r\n"
	const cand = "a=candidate:3769337065 1 udp 2122260223 203.0.113.7 56688 typ host\r\n"
	tail := "c=IN IP4 8.8.8.8\r\n" + cand + cred + "a=mid:0\r\na=sctp-port:5000\r\n"
	var out []string
	for _, m := range []string{
		"m=application 9 UDP/DTLS/SCTP",                      // empty format list
		"m=application 9 UDP/DTLS/SCTP ",                     // trailing space, empty format
		"m=application 9 UDP/DTLS/SCTP 5000",                 // old-style numeric format
		"m=application 9 DTLS/SCTP 5000",                     // the pre-RFC 8841 proto
		"m=application 0 UDP/DTLS/SCTP webrtc-datachannel",   // rejected section
		"m=application 9 UDP/DTLS/SCTP webrtc-datachannel x", // two formats
		"m=audio 9 UDP/TLS/RTP/SAVPF",                        // audio without formats
		"m=video 9 UDP/TLS/RTP/SAVPF 96",
		"m=application 9/2 UDP/DTLS/SCTP webrtc-datachannel", // port range
	} {
		out = append(out, sess+"a=group:BUNDLE 0\r\n"+m+"\r\n"+tail)
	}
	out = append(out,
		sess+cred, // no media section, credentials at session level
		sess+"a=group:BUNDLE 0 1\r\nm=application 9 UDP/DTLS/SCTP webrtc-datachannel\r\n"+tail+"m=application 9 UDP/DTLS/SCTP\r\n"+"c=IN IP4 8.8.8.8\r\n"+cred+"a=mid:1\r\n",
		sess+cred+"m=application 9 UDP/DTLS/SCTP webrtc-datachannel\r\nc=IN IP4 8.8.8.8\r\na=mid:0\r\n",
	)
	return out
}

func TestVerifC13PeerConnection(t *testing.T) {
	res := vlib.NewResult("C13", "inpkg-proxylib-c13-peerconn", "hostile offers (the base offer with one line of any SDP line type inserted or replaced with 0-3 odd fields, truncations, arbitrary bytes, plus fixed witnesses) handed to the proxy's makePeerConnectionFromOffer exactly as runSession does after deserialising; the call must return a peer connection or an error, never panic; non-trivial = offer the SDP parser rejects or panics on, distinct by text")
	defer res.Finish()
	r := vlib.NewRand(vlib.Seed()).Split("c13pc")
	sf := &SnowflakeProxy{}
	cfg := webrtc.Configuration{}
	n := vlib.Scale(1200, 20000)
	witnesses := []string{
		"v=0\r\no=- 0 0 IN IP4 0\r\ns=-\r\nt=0 0\r\nr=\r\n",
		"v=0\r\no=- 0 0 IN IP4 0\r\ns=-\r\nt=0 0\r\nr=1\r\n",
		"", "v=0\r\n", c13BaseOffer,
	}
	witnesses = append(witnesses, c13StructuralOffers()...)
	for i := 0; i < n+len(witnesses); i++ {
		var sdp, desc string
		if i < len(witnesses) {
			sdp, desc = witnesses[i], "fixed witness"
		} else {
			sdp, desc = c13HostileSDP(r.SplitN("case", i), i)
		}
		rec := map[string]interface{}{"case": fmt.Sprintf("peerconn/%d", i), "sdp": sdp, "how": desc}
		res.CaseLog(fmt.Sprintf("peerconn/%d", i))
		res.Eval(1)
		var pc *webrtc.PeerConnection
		var err error
		offer := &webrtc.SessionDescription{Type: webrtc.SDPTypeOffer, SDP: sdp}
		dataChan := make(chan struct{})
		panicked := false
		func() {
			defer func() {
				if e := recover(); e != nil {
					panicked = true
					stack := vlib.ShortStack()
					cls := "other"
					if strings.Contains(stack, "parseTimeUnits") {
						cls = "sdp/v3.parseTimeUnits"
					} else if strings.Contains(stack, "pion/sdp") {
						cls = "sdp/v3"
					} else if strings.Contains(stack, "pion/webrtc") {
						cls = "pion/webrtc"
					}
					res.Violate("panic:proxy-makePeerConnectionFromOffer:"+cls, fmt.Sprintf("offer (%s) makes the proxy's peer-connection set-up panic: %v", desc, e), rec)
				}
			}()
			pc, err = sf.makePeerConnectionFromOffer(offer, cfg, dataChan, func(conn *webRTCConn, remoteAddr net.Addr) {})
		}()
		switch {
		case panicked:
			res.Obs("offers_panicking", 1)
			res.Distinct(sdp)
		case err != nil:
			res.Obs("offers_rejected_with_error", 1)
			res.Distinct(sdp)
		default:
			res.Obs("offers_accepted", 1)
			if pc != nil {
				pc.Close()
			}
		}
		if i < 3 {
			res.Sample(3, rec)
		}
	}
	res.RequireObs("offers_rejected_with_error", 100)
	res.RequireObs("offers_accepted", 1)
}
